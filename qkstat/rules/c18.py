"""C18 - reported widths bound real values (wiring clauses only).

The bound itself is numeric (C16/C17 arithmetic composed with the tensors of
a concrete model) and is NOT decided.  What is decided:

R1 wiring of the dense / convolution arm of generate_layer_data_type_map:
   the arm is partially evaluated on a synthetic layer with tagged quantizers
   and recording factories; the multiplier must be built from (weight
   quantizer of get_quantizers()[0], input quantizer of the input edge), the
   kernel accumulator from (kernel shape - spatial dims only for depthwise -,
   that multiplier, use_bias=False), the entry's accumulator must be the bias
   adder of (kernel accumulator output, bias quantizer) when the layer has a
   bias and the kernel accumulator otherwise, the stored entry must bind
   multiplier / accumulator / weight_quantizer / bias_quantizer to those
   values, and the outgoing edge must receive accumulator.output.
R2 channel loop of estimate.analyze_accumulator: a loop index that ranges
   over k.shape[p] and is used as k[..., i] requires p == -1.
R4 auto-po2 adjustment (qtools_util.adjust_multiplier_for_auto_po2 /
   adjust_accumulator_for_auto_po2, interpreted with symbolic widths and a
   symbolic per-channel power-of-two scale): the adjusted multiplier must
   gain log2(max scale) integer bits and log2(1/min scale) fractional bits
   (so that the product with every channel's scale is representable), a
   never-called quantizer leaves it unchanged, and the fused accumulator
   must be built from the adjusted copy - not the original - with the same
   kernel-shape rule (depthwise: spatial dims only) and bias adder as the
   plain accumulator.
R6 wiring of the pooling and activation arms of the data-type map: the
   pooling accumulator is built from a stand-in multiplier whose output is
   the input type and from a kernel of (pool window or, for global pooling,
   the input's spatial dims) + (1, 1) with use_bias=False; quantized pooling
   multiplies the accumulator output by the converted average quantizer and
   reports the multiplier output, plain pooling the accumulator output; an
   activation layer reports its own quantizer; the entry keys the energy
   model reads are bound to these objects.
R5 activation propagation (qgraph.GraphPropagateActivationsToEdges,
   interpreted on a synthetic graph): every outgoing edge of a vertex - and
   the vertex's out_quantizer - carries the quantizer of QActivation /
   QAdaptiveActivation layers, the inline activation of other layers, and
   None for "linear" or for layers without an activation.
R3 exponent bookkeeping of power-of-two operands: the (min, max) exponent
   pair that qtools derives from a converted quantized_po2 /
   quantized_relu_po2 (get_min_max_exp, on which the shifter, po2 adders and
   accumulators build their integer and fractional bits) must enclose the
   exponent set that the qkeras quantizer itself can emit for the same
   (bits, max_value) - the latter computed by value-set abstract
   interpretation of the quantizer's own code (as in C03).
"""
import ast

from fractions import Fraction as F

from ..loader import AnalysisError
from ..pe import PE, Mock, PyRaise, Tensor, Fork, Unsupported, ConfigRejected
from .. import quant, oracle
from ..qir import value_set

TECHNIQUE = ("Partial evaluation of the dense/conv arm of the data-type map "
             "with recording factories (def-use wiring); AST index rule for "
             "the channel loop of analyze_accumulator.")

GM = "qkeras.qtools.generate_layer_data_type_map"
ES = "qkeras.estimate"
QI = "qkeras.qtools.quantized_operators.quantizer_impl"


def find_arm(fn):
  """The `elif node_type in QKERAS_LAYERS or node_type in KERAS_LAYERS` arm."""
  for n in ast.walk(fn):
    if isinstance(n, ast.If):
      t = ast.unparse(n.test).replace(" ", "")
      if "node_typeinQKERAS_LAYERS" in t and "KERAS_LAYERS" in t:
        return n
  return None


def run_arm(repo, arm, gm, node_type, use_bias, auto_po2=False):
  log = []

  def tagq(tag, **kw):
    a = {"is_po2": 0, "bits": 8, "int_bits": 0, "is_signed": 1, "mode": 0,
         "name": "quantized_bits", "is_floating_point": False}
    a.update(kw)
    return Mock(tag, a)
  qk_w, qk_b = tagq("qkeras_weight_q"), tagq("qkeras_bias_q")
  if auto_po2:
    qk_w.attrs["alpha"] = "auto_po2"
    qk_w.attrs["__str__"] = lambda pe, a, k: \
        "quantized_bits(4,0,1,alpha='auto_po2')"
  else:
    qk_w.attrs["alpha"] = None
    qk_w.attrs["__str__"] = lambda pe, a, k: "quantized_bits(4,0,1)"
  conv = {}

  def make_quantizer(pe, a, k):
    src = a[0]
    t = tagq("qtools(%s)" % getattr(src, "name", src))
    conv[id(t)] = src
    t.attrs["__src__"] = src
    return t
  qf = Mock("quantizer_factory", {
      "make_quantizer": make_quantizer,
      "is_quantizer_supported": lambda pe, a, k: True,
      "make_default_quantizer": lambda pe, a, k: tagq("default")})

  def make_multiplier(pe, a, k):
    m = Mock("multiplier", {"output": tagq("multiplier.output"),
                            "gate_bits": 1, "gate_factor": 1})
    log.append(("make_multiplier", a[0], a[1], m))
    return m

  def make_accumulator(pe, a, k):
    acc = Mock("kernel_accumulator", {"output": tagq("kernel_acc.output")})
    log.append(("make_accumulator", a[0], a[1],
                k.get("use_bias", a[2] if len(a) > 2 else "<default>"), acc))
    return acc

  def adder_make_quantizer(pe, a, k):
    add = Mock("bias_adder", {"output": tagq("bias_adder.output")})
    log.append(("adder.make_quantizer", a[0], a[1], add))
    return add
  qops = Mock("quantized_operators", {
      "MultiplierFactory": Mock("MF", {"__call__": lambda pe, a, k: Mock(
          "mf", {"make_multiplier": make_multiplier})}),
      "AccumulatorFactory": Mock("AF", {"__call__": lambda pe, a, k: Mock(
          "af", {"make_accumulator": make_accumulator})})})
  adder_factory = Mock("adder_factory", {
      "IAdder": Mock("IAdder", {"__call__": lambda pe, a, k: Mock(
          "iadder", {"make_quantizer": adder_make_quantizer})})})
  kshape = (3, 3, 4, 8)
  layer = Mock("layer", {
      "name": "L", "use_bias": use_bias,
      # geometry attributes of a Keras convolution / dense layer
      "kernel_size": kshape[:2], "strides": (1, 1), "padding": "valid",
      "dilation_rate": (1, 1), "depth_multiplier": 1, "filters": kshape[-1],
      "units": kshape[-1], "groups": 1, "data_format": "channels_last",
      "__class__": Mock("class", {"__name__": node_type}),
      "get_quantizers": lambda pe, a, k: [qk_w, qk_b],
      "get_weights": lambda pe, a, k: [Mock("kernel", {"shape": kshape}),
                                       Mock("bias", {"shape": (8,)})]})
  input_q = tagq("input_quantizer")
  edge_updates = []

  def update_out(pe, a, k):
    edge_updates.append(a[3])
    return a[3]
  def adj_acc(pe, a, k):
    f = Mock("fused_accumulator", {"output": tagq("fused_acc.output")})
    log.append(("adjust_accumulator", a[0], a[1], a[2], a[3], f))
    return f
  qutil = Mock("qtools_util", {
      "adjust_accumulator_for_auto_po2": adj_acc,
      "adjust_multiplier_for_auto_po2": lambda pe, a, k: log.append(
          ("adjust_multiplier", a[0], a[1])),
      "get_weights": lambda pe, a, k: [Mock("kernel", {"shape": kshape}),
                                       Mock("bias", {"shape": (8,)})]})
  pe = PE(repo, module_overrides={gm.name: {
      "update_output_quantizer_in_graph": update_out,
      "quantized_operators": qops, "adder_factory": adder_factory,
      "qtools_util": qutil}})
  pe.opaque_ext = True
  pe.fork = Fork([])
  lmap = {}
  frame = {
      "layer": layer, "node_type": node_type,
      "input_qe_list": [(input_q, {"shape": (None, 8, 8, 4)})],
      "input_quantizer_list": [input_q], "quantizer_factory": qf,
      "for_reference": False, "is_inference": False, "hw_weight_dict": None,
      "keras_quantizer": None, "keras_accumulator": None, "debug": False,
      "cfg": Mock("cfg", {"default_interm_quantizer": "int8"}),
      "layer_data_type_map": lmap, "graph": Mock("graph", {}), "node_id": 1,
      "w_shapes": kshape, "b_shapes": 8, "output_shapes": (None, 8, 8, 8),
      "operation_count": 100, "model_weights_already_quantized": True,
      "is_input_layer": False,
  }
  pe.exec_block(arm.body, [frame], gm)
  return log, lmap, edge_updates, dict(qk_w=qk_w, qk_b=qk_b, input_q=input_q,
                                       layer=layer, kshape=kshape)


def rule_wiring(rep, repo):
  gm = repo.module(GM)
  fn = gm.functions.get("generate_layer_data_type_map")
  if fn is None:
    raise AnalysisError("anchor-missing generate_layer_data_type_map")
  arm = find_arm(fn)
  if arm is None:
    raise AnalysisError("anchor-missing dense/conv arm of "
                        "generate_layer_data_type_map")
  unit = "%s::generate_layer_data_type_map[dense/conv arm]" % gm.relpath
  rep.unit(unit)
  loc = gm.loc(arm)
  for node_type in ("QDense", "QConv2D", "QConv1D", "QDepthwiseConv2D",
                    "Conv2D"):
    for use_bias in (True, False):
      cfg = "%s(use_bias=%s)" % (node_type, use_bias)
      try:
        log, lmap, edges, env = run_arm(repo, arm, gm, node_type, use_bias)
      except PyRaise as e:
        rep.fail("R1", unit, "arm-raises", "%s: the arm raises %s" % (cfg, e),
                 loc=loc, instance=cfg)
        continue
      mm = [l for l in log if l[0] == "make_multiplier"]
      ma = [l for l in log if l[0] == "make_accumulator"]
      ad = [l for l in log if l[0] == "adder.make_quantizer"]
      ok = len(mm) == 1 and isinstance(mm[0][1], Mock) and \
          mm[0][1].attrs.get("__src__") is env["qk_w"] and \
          mm[0][2] is env["input_q"]
      rep.check(ok, "R1", unit, "multiplier-operands",
                "%s: make_multiplier is called with (%s, %s); expected the "
                "converted weight quantizer of get_quantizers()[0] and the "
                "input quantizer of the input edge" %
                (cfg, mm[0][1] if mm else None, mm[0][2] if mm else None),
                loc=loc, instance=cfg)
      want_shape = env["kshape"]
      if "Depthwise" in node_type:
        want_shape = env["kshape"][:-2] + (1, 1)
      ok = len(ma) == 1 and tuple(ma[0][1]) == want_shape and mm and \
          ma[0][2] is mm[0][3] and ma[0][3] is False
      rep.check(ok, "R1", unit, "kernel-accumulator-operands",
                "%s: make_accumulator is called with shape %s, multiplier "
                "%s, use_bias=%s; expected %s, the layer's multiplier, "
                "False" % (cfg, tuple(ma[0][1]) if ma else None,
                           ma[0][2] if ma else None, ma[0][3] if ma else None,
                           want_shape), loc=loc, instance=cfg)
      ent = lmap.get(env["layer"])
      if not isinstance(ent, dict):
        rep.fail("R1", unit, "no-entry-stored",
                 "%s: no entry stored for the layer" % cfg, loc=loc,
                 instance=cfg)
        continue
      if use_bias:
        ok = len(ad) == 1 and ma and ad[0][1] is ma[0][4].attrs["output"] \
            and isinstance(ad[0][2], Mock) and \
            ad[0][2].attrs.get("__src__") is env["qk_b"] and \
            ent.get("accumulator") is ad[0][3]
        rep.check(ok, "R1", unit, "bias-adder-wiring",
                  "%s: with a bias the entry's accumulator must be "
                  "IAdder().make_quantizer(kernel accumulator output, bias "
                  "quantizer); adder calls: %s, stored accumulator: %s" %
                  (cfg, [(a[1], a[2]) for a in ad], ent.get("accumulator")),
                  loc=loc, instance=cfg)
        rep.check(isinstance(ent.get("bias_quantizer"), Mock) and
                  ent["bias_quantizer"].attrs.get("__src__") is env["qk_b"],
                  "R1", unit, "entry-bias-quantizer",
                  "%s: the stored bias_quantizer is %s" %
                  (cfg, ent.get("bias_quantizer")), loc=loc, instance=cfg)
      else:
        rep.check(not ad and ma and ent.get("accumulator") is ma[0][4] and
                  ent.get("bias_quantizer") is None, "R1", unit,
                  "biasless-wiring",
                  "%s: without a bias the entry's accumulator must be the "
                  "kernel accumulator and bias_quantizer None (adder calls "
                  "%d, accumulator %s, bias_quantizer %s)" %
                  (cfg, len(ad), ent.get("accumulator"),
                   ent.get("bias_quantizer")), loc=loc, instance=cfg)
      rep.check(mm and ent.get("multiplier") is mm[0][3] and
                isinstance(ent.get("weight_quantizer"), Mock) and
                ent["weight_quantizer"].attrs.get("__src__") is env["qk_w"],
                "R1", unit, "entry-multiplier/weight-quantizer",
                "%s: the stored multiplier / weight_quantizer are not the "
                "ones built for the layer" % cfg, loc=loc, instance=cfg)
      acc = ent.get("accumulator")
      rep.check(len(edges) == 1 and isinstance(acc, Mock) and
                edges[0] is acc.attrs.get("output"), "R1", unit,
                "edge-does-not-get-accumulator-output",
                "%s: the outgoing edge is updated with %s, expected the "
                "output type of the entry's accumulator" %
                (cfg, edges), loc=loc, instance=cfg)
      # scale-adjusted accumulator entry
      rep.check("fused_accumulator" in ent and
                ent["fused_accumulator"] is ent.get("accumulator") and
                not [l for l in log if l[0].startswith("adjust_")], "R1",
                unit, "fused-accumulator-without-auto-po2",
                "%s: without an auto_po2 kernel the fused_accumulator entry "
                "must be the accumulator itself and no adjustment may run"
                % cfg, loc=loc, instance=cfg)
      try:
        log2, lmap2, _, env2 = run_arm(repo, arm, gm, node_type, use_bias,
                                       auto_po2=True)
      except PyRaise as e:
        rep.fail("R1", unit, "arm-raises:auto_po2",
                 "%s with an auto_po2 kernel: the arm raises %s" % (cfg, e),
                 loc=loc, instance=cfg)
        continue
      ent2 = lmap2.get(env2["layer"]) or {}
      aa = [l for l in log2 if l[0] == "adjust_accumulator"]
      mm2 = [l for l in log2 if l[0] == "make_multiplier"]
      okf = len(aa) == 1 and mm2 and aa[0][1] is env2["layer"] and \
          aa[0][2] is mm2[0][3] and aa[0][3] is env2["qk_w"] and \
          ent2.get("fused_accumulator") is aa[0][5] and \
          ent2.get("accumulator") is not aa[0][5]
      if okf:
        bq = aa[0][4]
        okf = (isinstance(bq, Mock) and bq.attrs.get("__src__") is
               env2["qk_b"]) if use_bias else True
      rep.check(okf, "R1", unit, "fused-accumulator-wiring",
                "%s with an auto_po2 quantized_bits kernel: the "
                "fused_accumulator entry must be "
                "adjust_accumulator_for_auto_po2(layer, the layer's "
                "multiplier, the qkeras weight quantizer, the bias "
                "quantizer) and differ from the plain accumulator; calls: "
                "%s, stored: %s" % (cfg, [(a[1], a[2], a[3], a[4])
                                         for a in aa],
                                    ent2.get("fused_accumulator")),
                loc=loc, instance=cfg)
      if len(rep.samples) < 4:
        rep.sample({"layer": cfg, "calls": [l[0] for l in log],
                    "entry_keys": sorted(ent)})


def rule_channel_loop(rep, repo):
  es = repo.module(ES)
  n = 0
  for fname in ("analyze_accumulator", "analyze_accumulator_from_sample"):
    fn = es.functions.get(fname)
    if fn is None:
      if fname == "analyze_accumulator":
        raise AnalysisError("anchor-missing estimate.analyze_accumulator")
      continue
    unit = "%s::%s" % (es.relpath, fname)
    rep.unit(unit)
    for loop in ast.walk(fn):
      if not isinstance(loop, ast.For) or not isinstance(loop.target,
                                                         ast.Name):
        continue
      it = loop.iter
      if not (isinstance(it, ast.Call) and isinstance(it.func, ast.Name) and
              it.func.id == "range" and len(it.args) == 1):
        continue
      a = it.args[0]
      if not (isinstance(a, ast.Subscript) and isinstance(a.value,
                                                          ast.Attribute) and
              a.value.attr == "shape" and isinstance(a.value.value,
                                                     ast.Name)):
        continue
      arr = a.value.value.id
      idx = a.slice
      pos = None
      if isinstance(idx, ast.Constant):
        pos = idx.value
      elif isinstance(idx, ast.UnaryOp) and isinstance(idx.op, ast.USub) and \
          isinstance(idx.operand, ast.Constant):
        pos = -idx.operand.value
      i = loop.target.id
      last_axis_uses = 0
      for s in ast.walk(loop):
        if isinstance(s, ast.Subscript) and isinstance(s.value, ast.Name) \
            and s.value.id == arr and isinstance(s.slice, ast.Tuple) and \
            len(s.slice.elts) == 2 and isinstance(s.slice.elts[0],
                                                  ast.Constant) and \
            s.slice.elts[0].value is Ellipsis and isinstance(
                s.slice.elts[1], ast.Name) and s.slice.elts[1].id == i:
          last_axis_uses += 1
      if not last_axis_uses:
        continue
      n += 1
      rep.check(pos == -1, "R2", unit, "channel-loop-over-wrong-axis",
                "the loop index ranges over %s.shape[%s] but indexes the "
                "last axis (%s[..., %s]): for convolution kernels only the "
                "first shape[%s] output channels are analysed" %
                (arr, pos, arr, i, pos), loc=es.loc(loop))
  if n < 1:
    raise AnalysisError("instance-count no channel loop found in "
                        "analyze_accumulator")


def rule_po2_exponents(rep, repo, tier, rule="R3"):
  qi = repo.module(QI)
  if "PowerOfTwo" not in qi.classes or "get_exp" not in qi.functions:
    raise AnalysisError("anchor-missing PowerOfTwo / get_exp in "
                        "quantizer_impl")
  unit = "%s::get_exp" % qi.relpath
  rep.unit(unit)
  loc = qi.loc(qi.functions["get_exp"])
  bits_r = range(2, 7) if tier == "quick" else range(2, 9)
  mvs = [None, F(1, 4), F(1, 2), 1, F(3, 2), 2, 3, 4, 5, 6, 7, 8, 12, 24, 100]
  if tier == "thorough":
    mvs += [F(1, 8), F(3, 4), 9, 11, 13, 16, 23, 32, 45, 48, 64, 91, 1000]
  n = 0
  for cls in ("quantized_po2", "quantized_relu_po2"):
    for bits in bits_r:
      for mv in mvs:
        kw = dict(bits=bits, max_value=mv)
        cfg = "%s(%s)" % (cls, oracle.show_kwargs(kw))
        try:
          b = quant.build(repo, cls, kw)
        except ConfigRejected:
          continue
        vs = value_set(b.fwd("infer"))
        if vs.kind != "po2":
          # C03 reports this; nothing to compare here
          continue
        elo, ehi = vs.exps.bounds()
        pe = PE(repo)
        q = pe.call(pe.lookup_global("PowerOfTwo", qi),
                    [cls == "quantized_po2"], {})
        src = Mock(cls, {"__class__": Mock("class", {"__name__": cls}),
                         "bits": bits, "max_value": mv, "negative_slope": 0})
        try:
          pe.call(pe.getattr(q, "convert_qkeras_quantizer"), [src], {})
          r = pe.call(pe.getattr(q, "get_min_max_exp"), [], {})
          mn, mx = F(r[0]), F(r[1])
        except PyRaise as e:
          rep.fail(rule, unit, "exponent-bookkeeping-raises",
                   "%s: get_min_max_exp raises %s" % (cfg, e), loc=loc,
                   instance=cfg)
          continue
        n += 1
        rep.check(ehi <= mx, rule, unit, "max-exponent-too-small",
                  "%s emits exponents up to %s (value %s) but qtools "
                  "reports max exponent %s: integer bits of shifters / po2 "
                  "accumulators are too few" % (cfg, ehi, F(2) ** ehi, mx),
                  loc=loc, instance=cfg)
        rep.check(elo >= -mn, rule, unit, "min-exponent-too-large",
                  "%s emits exponents down to %s but qtools reports min "
                  "exponent -%s: fractional bits of shifters / po2 "
                  "accumulators are too few" % (cfg, elo, mn),
                  loc=loc, instance=cfg)
  if n < 100:
    raise AnalysisError("instance-count only %d po2 configurations "
                        "compared" % n)


def rule_auto_po2_adjust(rep, repo):
  from ..pe import mkfloat
  from ..qir import Fwd
  from ..nf import NF, show
  qu = repo.module("qkeras.qtools.qtools_util")
  for fname in ("adjust_multiplier_for_auto_po2",
                "adjust_accumulator_for_auto_po2"):
    if fname not in qu.functions:
      raise AnalysisError("anchor-missing qtools_util.%s" % fname)
  fn = qu.functions["adjust_multiplier_for_auto_po2"]
  unit = "%s::adjust_multiplier_for_auto_po2" % qu.relpath
  rep.unit(unit)
  loc = qu.loc(fn)

  def S(n):
    return Tensor(("sym", n), ())
  fw = Fwd()
  b, i = NF.sym("b"), NF.sym("i")

  def run(scale_fn, alpha="auto_po2", text="quantized_bits(4,0,1,"
          "alpha='auto_po2')"):
    out = Mock("out", {"bits": S("b"), "int_bits": S("i"), "is_signed": 1})
    mult = Mock("mult", {"output": out})
    wq = Mock("wq", {"alpha": alpha, "__str__": lambda pe, a, k: text})
    pe = PE(repo, module_overrides={qu.name: {
        "get_scale_from_quantized_bits_with_auto_po2": scale_fn}})
    pe.opaque_ext = True
    pe.call(pe.lookup_global("adjust_multiplier_for_auto_po2", qu),
            [mult, wq], {})
    g = lambda v: fw(v.term) if isinstance(v, Tensor) else NF.const(F(v))
    return g(out.attrs["bits"]), g(out.attrs["int_bits"])
  cases = [
      ("per-channel scale array",
       lambda pe, a, k: Tensor(("sym", "scale"), (1, 8)), None),
      ("scalar scale 1/4", lambda pe, a, k: mkfloat(F(1, 4)), (-2, -2)),
      ("scalar scale 8", lambda pe, a, k: mkfloat(F(8)), (3, 3)),
      ("quantizer never called (scale None)", lambda pe, a, k: None, (0, 0)),
  ]
  for label, sfn, shifts in cases:
    try:
      bits, ib = run(sfn)
    except PyRaise as e:
      rep.fail("R4", unit, "adjust-raises:" + label,
               "%s: raises %s" % (label, e), loc=loc)
      continue
    if shifts is None:
      atoms = {a[1]: a for a in (bits - b).atoms() | (ib - i).atoms()
               if a[0] == "app"}
      lmax = [a for a in ib.atoms() if a[0] == "app" and a[1] == "log2"]
      ok = len(lmax) == 1 and ib == i + NF.atom(lmax[0]) and any(
          x[0] == "app" and x[1] == "reduce_max"
          for x in lmax[0][3][0].atoms())
      rep.check(ok, "R4", unit, "int-bits-not-shifted-by-max-scale",
                "%s: int_bits become %s, expected i + log2(max scale)" %
                (label, show(ib)), loc=loc)
      fr_ = bits - ib - (b - i)
      lmin = [a for a in fr_.atoms() if a[0] == "app" and a[1] == "log2"]
      ok = len(lmin) == 1 and fr_ == -NF.atom(lmin[0]) and any(
          x[0] == "app" and x[1] == "reduce_min"
          for x in lmin[0][3][0].atoms())
      rep.check(ok, "R4", unit, "frac-bits-not-shifted-by-min-scale",
                "%s: fractional bits change by %s, expected -log2(min "
                "scale)" % (label, show(fr_)), loc=loc)
    else:
      lo, hi = shifts
      rep.check(ib == i + hi and bits - ib == (b - i) - lo, "R4", unit,
                "scalar-scale-adjustment:" + label,
                "%s: bits=%s int_bits=%s, expected int_bits i%+d and %+d "
                "fractional bits" % (label, show(bits), show(ib), hi, -lo),
                loc=loc)
  # a non-quantized_bits auto_po2 quantizer is documented as unsupported:
  # unchanged
  try:
    bits, ib = run(lambda pe, a, k: mkfloat(F(4)), text="binary(alpha="
                   "'auto_po2')")
    rep.check(bits == b and ib == i, "R4", unit, "unsupported-kind-adjusted",
              "a binary auto_po2 weight quantizer changes the multiplier to "
              "bits=%s int_bits=%s" % (show(bits), show(ib)), loc=loc)
  except PyRaise as e:
    rep.fail("R4", unit, "adjust-raises:binary", "raises %s" % e, loc=loc)
  # ---- fused accumulator wiring
  fn2 = qu.functions["adjust_accumulator_for_auto_po2"]
  unit2 = "%s::adjust_accumulator_for_auto_po2" % qu.relpath
  rep.unit(unit2)
  loc2 = qu.loc(fn2)
  for cname, use_bias in (("QConv2D", True), ("QConv2D", False),
                          ("QDepthwiseConv2D", True), ("QDense", True)):
    log = {}
    kshape = (3, 3, 4, 1) if "Depthwise" in cname else (
        (16, 8) if cname == "QDense" else (3, 3, 4, 8))
    out = Mock("out", {"bits": 8, "int_bits": 2, "is_signed": 1,
                       "__copyable__": True})
    mult = Mock("mult", {"output": out, "__copyable__": True})
    adjusted = []

    def adj(pe, a, k, adjusted=adjusted):
      adjusted.append(a[0])
      a[0].attrs["adjusted"] = True
    acc_out = Mock("kernel_accumulator_output", {})
    kacc = Mock("kernel_accumulator", {"output": acc_out})

    def make_acc(pe, a, k, log=log):
      log["acc"] = (a[0], a[1], k.get("use_bias", a[2] if len(a) > 2
                                      else None))
      return kacc
    bias_adder = Mock("bias_adder", {})

    def make_q(pe, a, k, log=log):
      log["adder"] = (a[0], a[1])
      return bias_adder
    qo = Mock("quantized_operators", {
        "AccumulatorFactory": lambda pe, a, k: Mock(
            "accfac", {"make_accumulator": make_acc}),
        "adder_factory": Mock("adder_factory", {
            "IAdder": lambda pe, a, k: Mock("iadder",
                                            {"make_quantizer": make_q})})})
    layer = Mock(cname, {
        "__class__": Mock("class", {"__name__": cname}),
        "use_bias": use_bias,
        "get_weights": lambda pe, a, k: [Mock("kernel", {"shape": kshape}),
                                         Mock("bias", {"shape": (8,)})]})
    bq = Mock("bias_quantizer", {})
    pe = PE(repo, module_overrides={qu.name: {
        "adjust_multiplier_for_auto_po2": adj, "quantized_operators": qo}})
    pe.opaque_ext = True
    cfg = "%s(use_bias=%s)" % (cname, use_bias)
    try:
      r = pe.call(pe.lookup_global("adjust_accumulator_for_auto_po2", qu),
                  [layer, mult, Mock("wq", {}), bq], {})
    except PyRaise as e:
      rep.fail("R4", unit2, "fused-accumulator-raises", "%s: raises %s" %
               (cfg, e), loc=loc2, instance=cfg)
      continue
    rep.check(len(adjusted) == 1 and adjusted[0] is not mult and
              not mult.attrs.get("adjusted"), "R4", unit2,
              "original-multiplier-modified",
              "%s: the adjustment must be applied to a copy of the "
              "multiplier (the per-layer multiplier entry keeps the "
              "unscaled type)" % cfg, loc=loc2, instance=cfg)
    acc = log.get("acc")
    want_shape = (3, 3, 1, 1) if "Depthwise" in cname else kshape
    rep.check(acc is not None and adjusted and acc[1] is adjusted[0] and
              tuple(acc[0]) == want_shape and acc[2] is False, "R4", unit2,
              "fused-kernel-accumulator-wiring",
              "%s: the fused kernel accumulator is built from %s; expected "
              "(kernel shape %s, the adjusted multiplier copy, "
              "use_bias=False)" % (cfg, acc and (tuple(acc[0]), acc[1],
                                                 acc[2]), want_shape),
              loc=loc2, instance=cfg)
    if use_bias:
      ad = log.get("adder")
      rep.check(r is bias_adder and ad is not None and ad[0] is acc_out and
                ad[1] is bq, "R4", unit2, "fused-bias-adder-wiring",
                "%s: the fused accumulator must be the bias adder of (fused "
                "kernel accumulator output, bias quantizer)" % cfg,
                loc=loc2, instance=cfg)
    else:
      rep.check(r is kacc and "adder" not in log, "R4", unit2,
                "fused-accumulator-without-bias",
                "%s: without a bias the fused accumulator is the fused "
                "kernel accumulator" % cfg, loc=loc2, instance=cfg)


def rule_propagation(rep, repo):
  qg = repo.module("qkeras.qtools.qgraph")
  fn = qg.functions.get("GraphPropagateActivationsToEdges")
  if fn is None:
    raise AnalysisError("anchor-missing qgraph."
                        "GraphPropagateActivationsToEdges")
  unit = "%s::GraphPropagateActivationsToEdges" % qg.relpath
  rep.unit(unit)
  loc = qg.loc(fn)

  def cls(n):
    return Mock("class", {"__name__": n})
  qa = Mock("quantized_relu object", {"__class__": cls("quantized_relu")})
  qb = Mock("quantized_bits object", {"__class__": cls("quantized_bits")})
  qad = Mock("quantized_relu (adaptive)", {"__class__": cls("quantized_relu")})
  linear = Mock("linear function", {"__name__": "linear",
                                    "__class__": cls("function")})
  relu = Mock("relu function", {"__name__": "relu",
                                "__class__": cls("function")})
  L = lambda name, c, **a: Mock(name, dict(a, name=name, __class__=cls(c)))
  layers = {
      1: (L("qdense_with_qa", "QDense", activation=qa), qa),
      2: (L("dense_linear", "Dense", activation=linear), None),
      3: (L("qactivation", "QActivation", activation="quantized_bits(4)",
            quantizer=qb), qb),
      4: (L("pool_without_activation", "MaxPooling2D"), None),
      5: (L("dense_relu", "Dense", activation=relu), relu),
      6: (L("qadaptive", "QAdaptiveActivation", activation="quantized_relu",
            quantizer=qad), qad),
  }
  succ = {0: [1], 1: [2, 3], 2: [4], 3: [4], 4: [5], 5: [6], 6: [7], 7: []}
  edges = {u: {v: {"quantizer": "<unset>", "shape": None} for v in vs}
           for u, vs in succ.items()}
  nodes = {0: {"layer": [None], "type": [None], "out_quantizer": None},
           7: {"layer": [None], "type": [None], "out_quantizer": None}}
  for i, (lyr, _) in layers.items():
    nodes[i] = {"layer": [lyr], "type": [lyr.attrs["__class__"].attrs[
        "__name__"]], "out_quantizer": "<unset>"}
  graph = Mock("graph", {
      "nodes": nodes,
      "edges": lambda pe, a, k: [(a[0], v) for v in succ[a[0]]],
      "__getitem__": lambda pe, a, k: edges[a[0]]})
  pe = PE(repo)
  pe.opaque_ext = True
  pe.ext_overrides = {"*.topological_sort": lambda pe, a, k: list(range(8))}
  try:
    pe.call(pe.lookup_global("GraphPropagateActivationsToEdges", qg),
            [graph], {})
  except PyRaise as e:
    rep.fail("R5", unit, "propagation-raises",
             "raises %s on the synthetic graph" % e, loc=loc)
    return
  for i, (lyr, want) in sorted(layers.items()):
    name = lyr.attrs["name"]
    got = [edges[i][v]["quantizer"] for v in succ[i]]
    rep.check(all(g is want for g in got), "R5", unit,
              "edge-quantizer:" + name,
              "outgoing edges of %s carry %s, expected %s on every edge" %
              (name, got, want), loc=loc)
    rep.check(nodes[i]["out_quantizer"] is want, "R5", unit,
              "out_quantizer:" + name,
              "out_quantizer of %s is %s, expected %s" %
              (name, nodes[i]["out_quantizer"], want), loc=loc)


def find_arm_by(fn, needles):
  for n in ast.walk(fn):
    if isinstance(n, ast.If):
      t = ast.unparse(n.test)
      if all(x in t for x in needles):
        return n
  return None


def rule_other_arms(rep, repo):
  gm = repo.module(GM)
  fn = gm.functions["generate_layer_data_type_map"]
  pool_arm = find_arm_by(fn, ["AveragePooling2D", "QGlobalAveragePooling2D",
                              "layer.__class__.__name__"])
  act_arm = find_arm_by(fn, ["QActivation", "QAdaptiveActivation",
                             "node_type"])
  if pool_arm is None or act_arm is None:
    raise AnalysisError("anchor-missing pooling / activation arm of "
                        "generate_layer_data_type_map")
  unit = "%s::generate_layer_data_type_map[pooling arm]" % gm.relpath
  rep.unit(unit)
  loc = gm.loc(pool_arm)

  def tagq(tag):
    return Mock(tag, {"bits": 8, "int_bits": 0, "is_signed": 1, "mode": 0,
                      "name": "quantized_bits", "is_floating_point": False})
  for cname in ("AveragePooling2D", "GlobalAveragePooling2D",
                "QAveragePooling2D", "QGlobalAveragePooling2D"):
    log = []
    input_q = tagq("input_quantizer")
    qk_avg = tagq("qkeras_average_q")

    def make_quantizer(pe, a, k):
      t = tagq("qtools(avg)")
      t.attrs["__src__"] = a[0]
      return t
    qf = Mock("quantizer_factory", {
        "make_quantizer": make_quantizer,
        "make_default_quantizer": lambda pe, a, k: tagq("default")})

    def make_multiplier(pe, a, k):
      m = Mock("multiplier", {"output": tagq("multiplier.output")})
      log.append(("mult", a[0], a[1], m))
      return m

    def make_accumulator(pe, a, k):
      acc = Mock("accumulator", {"output": tagq("acc.output")})
      # the stand-in multiplier's output at the time of the call
      log.append(("acc", tuple(a[0]), a[1], a[1].attrs.get("output"),
                  k.get("use_bias", a[2] if len(a) > 2 else "<default>"),
                  acc))
      return acc
    qops = Mock("quantized_operators", {
        "MultiplierFactory": Mock("MF", {"__call__": lambda pe, a, k: Mock(
            "mf", {"make_multiplier": make_multiplier})}),
        "AccumulatorFactory": Mock("AF", {"__call__": lambda pe, a, k: Mock(
            "af", {"make_accumulator": make_accumulator})})})
    layer = Mock("layer", {
        "name": "P", "pool_size": (2, 3),
        "__class__": Mock("class", {"__name__": cname}),
        "get_quantizers": lambda pe, a, k: [qk_avg]})
    edges = []

    def update_out(pe, a, k):
      edges.append(a[3])
      return a[3]
    pe = PE(repo, module_overrides={gm.name: {
        "update_output_quantizer_in_graph": update_out,
        "quantized_operators": qops}})
    pe.opaque_ext = True
    lmap = {}
    frame = {
        "layer": layer, "node_type": cname,
        "input_qe_list": [(input_q, {"shape": (None, 8, 6, 4)})],
        "input_quantizer_list": [input_q], "input_shape": (None, 8, 6, 4),
        "quantizer_factory": qf, "for_reference": False,
        "keras_accumulator": None, "debug": False,
        "cfg": Mock("cfg", {"default_interm_quantizer": "int8"}),
        "layer_data_type_map": lmap, "graph": Mock("graph", {}),
        "node_id": 1, "output_shapes": (None, 4, 2, 4),
        "operation_count": 100}
    cfg = cname
    try:
      pe.exec_block(pool_arm.body, [frame], gm)
    except PyRaise as e:
      rep.fail("R6", unit, "arm-raises", "%s: the pooling arm raises %s" %
               (cfg, e), loc=loc, instance=cfg)
      continue
    quantized = cname.startswith("Q")
    is_global = "Global" in cname
    mults = [l for l in log if l[0] == "mult"]
    accs = [l for l in log if l[0] == "acc"]
    want_kernel = (8, 6, 1, 1) if is_global else (2, 3, 1, 1)
    ok = len(accs) == 1 and accs[0][1] == want_kernel and mults and \
        accs[0][2] is mults[0][3] and accs[0][3] is input_q and \
        accs[0][4] is False and mults[0][1] is input_q and \
        mults[0][2] is input_q
    rep.check(ok, "R6", unit, "pool-accumulator-wiring",
              "%s: the pooling accumulator is built from kernel %s, "
              "multiplier output %s, use_bias=%s; expected kernel %s, a "
              "stand-in multiplier of (input, input) whose output is the "
              "input type, use_bias=False" % (
                  cfg, accs[0][1] if accs else None,
                  accs[0][3] if accs else None, accs[0][4] if accs else None,
                  want_kernel), loc=loc, instance=cfg)
    ent = lmap.get(layer)
    if not isinstance(ent, dict):
      rep.fail("R6", unit, "no-entry-stored", "%s: no entry stored" % cfg,
               loc=loc, instance=cfg)
      continue
    acc_obj = accs[0][5] if accs else None
    rep.check(ent.get("pool_sum_accumulator") is acc_obj, "R6", unit,
              "entry-pool-accumulator", "%s: pool_sum_accumulator is %s" %
              (cfg, ent.get("pool_sum_accumulator")), loc=loc, instance=cfg)
    if quantized:
      ok = len(mults) == 2 and acc_obj is not None and \
          mults[1][1] is acc_obj.attrs["output"] and isinstance(
              mults[1][2], Mock) and mults[1][2].attrs.get(
                  "__src__") is qk_avg and \
          ent.get("pool_avg_multiplier") is mults[1][3] and \
          ent.get("average_quantizer") is mults[1][2] and \
          edges == [mults[1][3].attrs["output"]]
      rep.check(ok, "R6", unit, "quantized-pool-wiring",
                "%s: the averaging multiplier must be (accumulator output, "
                "converted average quantizer of get_quantizers()[0]), be "
                "stored as pool_avg_multiplier, and its output type must go "
                "to the outgoing edge; multiplier calls %s, edge %s" %
                (cfg, [(m[1], m[2]) for m in mults], edges), loc=loc,
                instance=cfg)
    else:
      rep.check(len(mults) == 1 and ent.get("pool_avg_multiplier") is None
                and acc_obj is not None and
                edges == [acc_obj.attrs["output"]], "R6", unit,
                "plain-pool-wiring",
                "%s: a plain pooling layer reports its accumulator output "
                "and has no averaging multiplier (edge %s, multiplier %s)" %
                (cfg, edges, ent.get("pool_avg_multiplier")), loc=loc,
                instance=cfg)
  # activation arm
  unit2 = "%s::generate_layer_data_type_map[activation arm]" % gm.relpath
  rep.unit(unit2)
  loc2 = gm.loc(act_arm)
  for cname, has_q in (("QActivation", True), ("QAdaptiveActivation", True),
                       ("Activation", False)):
    own_q = tagq("layer.quantizer")
    default_q = tagq("default")
    qf = Mock("quantizer_factory", {
        "is_quantizer_supported": lambda pe, a, k: True,
        "make_default_quantizer": lambda pe, a, k: default_q})
    attrs = {"name": "A", "__class__": Mock("class", {"__name__": cname}),
             "activation": tagq("layer.activation (not the quantizer)")}
    if has_q:
      attrs["quantizer"] = own_q
    layer = Mock("layer", attrs)
    edges = []

    def update_out(pe, a, k):
      edges.append(a[3])
      return a[3]
    pe = PE(repo, module_overrides={gm.name: {
        "update_output_quantizer_in_graph": update_out}})
    pe.opaque_ext = True
    lmap = {}
    input_q = tagq("input_quantizer")
    frame = {
        "layer": layer, "node_type": cname,
        "input_quantizer_list": [input_q], "quantizer_factory": qf,
        "for_reference": False, "keras_accumulator": None, "debug": False,
        "cfg": Mock("cfg", {"default_interm_quantizer": "int8"}),
        "layer_data_type_map": lmap, "graph": Mock("graph", {}),
        "node_id": 1, "w_shapes": None, "b_shapes": None,
        "output_shapes": (None, 8), "operation_count": 0}
    try:
      pe.exec_block(act_arm.body, [frame], gm)
    except PyRaise as e:
      rep.fail("R6", unit2, "arm-raises", "%s: the activation arm raises %s"
               % (cname, e), loc=loc2, instance=cname)
      continue
    want = own_q if has_q else default_q
    ent = lmap.get(layer)
    oq = None
    if isinstance(ent, dict):
      oq = ent.get("output_quantizer")
    elif ent is not None:
      try:
        oq = pe.getattr(ent, "output_quantizer")
      except PyRaise:
        oq = None
    rep.check(edges == [want] and oq is want, "R6", unit2,
              "activation-output-type",
              "%s: the outgoing edge receives %s and the entry reports %s; "
              "expected %s" % (cname, edges, oq, want), loc=loc2,
              instance=cname)


def rule_merge_and_passthrough_arms(rep, repo):
  gm = repo.module(GM)
  fn = gm.functions["generate_layer_data_type_map"]
  merge_arm = find_arm_by(fn, ["is_merge_layers(layer)"])
  pass_arm = find_arm_by(fn, ["is_shape_alternation_layers(layer)"])
  if merge_arm is None or pass_arm is None:
    raise AnalysisError("anchor-missing merge / shape-alternation arm")

  def tagq(tag):
    return Mock(tag, {"bits": 8, "int_bits": 0, "is_signed": 1, "mode": 0,
                      "name": "quantized_bits", "is_floating_point": False})
  unit = "%s::generate_layer_data_type_map[merge arm]" % gm.relpath
  rep.unit(unit)
  for cname in ("Add", "Multiply", "Concatenate"):
    calls = []
    mq = Mock("merge_quantizer", {"output": tagq("merge.output")})

    def make_q(pe, a, k, calls=calls, mq=mq):
      calls.append((a[0], a[1]))
      return mq
    qops = Mock("quantized_operators", {"MergeFactory": Mock("MF", {
        "__call__": lambda pe, a, k: Mock("mf", {"make_quantizer": make_q})})})
    edges = []

    def update_out(pe, a, k, edges=edges):
      edges.append(a[3])
      return a[3]
    qe = [(tagq("in0"), {"shape": (None, 8)}), (tagq("in1"),
                                                {"shape": (None, 8)})]
    layer = Mock("layer", {"name": "M", "__class__": Mock(
        "class", {"__name__": cname})})
    lmap = {}
    pe = PE(repo, module_overrides={gm.name: {
        "update_output_quantizer_in_graph": update_out,
        "quantized_operators": qops}})
    pe.opaque_ext = True
    frame = {"layer": layer, "node_type": cname, "input_qe_list": qe,
             "input_quantizer_list": [q for q, _ in qe],
             "quantizer_factory": Mock("qf", {}), "for_reference": False,
             "keras_accumulator": None,
             "cfg": Mock("cfg", {"default_interm_quantizer": "int8"}),
             "layer_data_type_map": lmap, "graph": Mock("graph", {}),
             "node_id": 1, "output_shapes": (None, 8),
             "operation_count": 8}
    try:
      pe.exec_block(merge_arm.body, [frame], gm)
    except PyRaise as e:
      rep.fail("R6", unit, "arm-raises", "%s: the merge arm raises %s" %
               (cname, e), loc=gm.loc(merge_arm), instance=cname)
      continue
    ent = lmap.get(layer)
    mult = pe.getattr(ent, "multiplier") if isinstance(ent, Mock) else (
        ent or {}).get("multiplier")
    oq = pe.getattr(ent, "output_quantizer") if isinstance(ent, Mock) else (
        ent or {}).get("output_quantizer")
    rep.check(calls == [(qe, cname)] and mult is mq and
              edges == [mq.attrs["output"]] and oq is mq.attrs["output"],
              "R6", unit, "merge-wiring",
              "%s: the merge type must be MergeFactory().make_quantizer("
              "input edges, class name); it is stored as the entry's "
              "multiplier and its output goes to the outgoing edge (calls "
              "%s, edge %s)" % (cname, calls, edges), loc=gm.loc(merge_arm),
              instance=cname)
  unit = "%s::generate_layer_data_type_map[shape arm]" % gm.relpath
  rep.unit(unit)
  for cname in ("Flatten", "MaxPooling2D", "UpSampling2D"):
    edges = []

    def update_out(pe, a, k, edges=edges):
      edges.append(a[3])
      return a[3]
    ins = [tagq("in0")]
    layer = Mock("layer", {"name": "S", "__class__": Mock(
        "class", {"__name__": cname})})
    lmap = {}
    pe = PE(repo, module_overrides={gm.name: {
        "update_output_quantizer_in_graph": update_out}})
    pe.opaque_ext = True
    frame = {"layer": layer, "node_type": cname,
             "input_quantizer_list": ins,
             "quantizer_factory": Mock("qf", {}), "for_reference": False,
             "layer_data_type_map": lmap, "graph": Mock("graph", {}),
             "node_id": 1, "output_shapes": (None, 8),
             "operation_count": 0}
    try:
      pe.exec_block(pass_arm.body, [frame], gm)
    except PyRaise as e:
      rep.fail("R6", unit, "arm-raises", "%s: raises %s" % (cname, e),
               loc=gm.loc(pass_arm), instance=cname)
      continue
    ent = lmap.get(layer)
    oq = pe.getattr(ent, "output_quantizer") if isinstance(ent, Mock) else (
        ent or {}).get("output_quantizer")
    rep.check(edges == [ins[0]] and oq is ins[0], "R6", unit,
              "pass-through-type",
              "%s: a layer that only re-arranges values must hand on its "
              "input type (edge %s, entry %s)" % (cname, edges, oq),
              loc=gm.loc(pass_arm), instance=cname)


def rule_output_update(rep, repo):
  """R6 (edge update): update_output_quantizer_in_graph keeps an activation
  quantizer that the layer itself specifies (the edge already carries it) and
  otherwise writes the computed type on every outgoing edge; the reported
  output type is the converted form of whichever was chosen."""
  gm = repo.module(GM)
  qg = repo.module("qkeras.qtools.qgraph")
  fn = gm.functions.get("update_output_quantizer_in_graph")
  if fn is None or "GraphUpdateEdge" not in qg.functions:
    raise AnalysisError("anchor-missing update_output_quantizer_in_graph / "
                        "GraphUpdateEdge")
  unit = "%s::update_output_quantizer_in_graph" % gm.relpath
  rep.unit(unit)
  loc = gm.loc(fn)
  for label, has_qa, supported, for_ref in (
      ("layer with its own activation quantizer", True, True, False),
      ("layer without activation quantizer", False, True, False),
      ("unsupported activation quantizer", True, False, False),
      ("for_reference", True, True, True)):
    qa = Mock("qkeras activation quantizer", {})
    newq = Mock("computed type", {})
    edges = {1: {2: {"quantizer": qa if has_qa else None},
                 3: {"quantizer": qa if has_qa else None}}}
    graph = Mock("graph", {
        "nodes": {1: {"out_quantizer": qa if has_qa else None}},
        "edges": lambda pe, a, k: [(a[0], v) for v in edges[a[0]]],
        "__getitem__": lambda pe, a, k: edges[a[0]]})
    conv = []

    def make_quantizer(pe, a, k, conv=conv):
      t = Mock("converted", {"__src__": a[0]})
      conv.append(a[0])
      return t
    qf = Mock("qf", {"make_quantizer": make_quantizer,
                     "is_quantizer_supported":
                         lambda pe, a, k, s_=supported: s_})
    pe = PE(repo)
    pe.opaque_ext = True
    try:
      r = pe.call(pe.lookup_global("update_output_quantizer_in_graph", gm),
                  [graph, 1, qf, newq, for_ref], {})
    except PyRaise as e:
      rep.fail("R6", unit, "output-update-raises", "%s: raises %s" %
               (label, e), loc=loc, instance=label)
      continue
    keep = has_qa and supported and not for_ref
    want_src = qa if keep else newq
    want_edges = [qa, qa] if keep else [newq, newq]
    got_edges = [edges[1][2]["quantizer"], edges[1][3]["quantizer"]]
    rep.check(isinstance(r, Mock) and r.attrs.get("__src__") is want_src
              and all(g is w for g, w in zip(got_edges, want_edges)),
              "R6", unit, "output-type-choice",
              "%s: the reported output type is converted from %s and the "
              "outgoing edges carry %s; expected %s on both" %
              (label, r.attrs.get("__src__") if isinstance(r, Mock) else r,
               got_edges, want_src), loc=loc, instance=label)


def rule_input_types(rep, repo):
  """R6 (edge reading): get_input_quantizers_advanced returns, for every
  incoming edge in predecessor order, the converted quantizer of THAT edge
  paired with that edge; a missing quantizer falls back to the source default
  on input layers and to the intermediate default elsewhere."""
  qu = repo.module("qkeras.qtools.qtools_util")
  fn = qu.functions.get("get_input_quantizers_advanced")
  if fn is None:
    raise AnalysisError("anchor-missing get_input_quantizers_advanced")
  unit = "%s::get_input_quantizers_advanced" % qu.relpath
  rep.unit(unit)
  loc = qu.loc(fn)
  for is_input in (False, True):
    qa, qb = Mock("edge quantizer a", {}), Mock("edge quantizer b", {})
    edges = {(5, 9): {"quantizer": qa, "shape": "A"},
             (7, 9): {"quantizer": None, "shape": "B"},
             (3, 9): {"quantizer": qb, "shape": "C"}}
    graph = Mock("graph", {
        "predecessors": lambda pe, a, k: [5, 7, 3],
        "edges": Mock("edges", {"__getitem__":
                                lambda pe, a, k: edges[tuple(a[0])]})})

    def make_quantizer(pe, a, k):
      return None if a[0] is None else Mock("converted",
                                            {"__src__": a[0]})
    qf = Mock("qf", {
        "make_quantizer": make_quantizer,
        "make_default_quantizer": lambda pe, a, k: Mock(
            "default", {"mode": k.get("mode", a[0] if a else None)})})
    cfg = Mock("cfg", {"default_source_quantizer": "SRC",
                       "default_interm_quantizer": "INTERM"})
    pe = PE(repo)
    pe.opaque_ext = True
    label = "input layer" if is_input else "inner layer"
    try:
      r = pe.call(pe.lookup_global("get_input_quantizers_advanced", qu),
                  [graph, 9, is_input, qf, cfg], {})
    except PyRaise as e:
      rep.fail("R6", unit, "input-types-raise", "%s: raises %s" % (label, e),
               loc=loc, instance=label)
      continue
    ok = isinstance(r, list) and len(r) == 3 and all(
        isinstance(t, (tuple, list)) and len(t) == 2 for t in r)
    if ok:
      (q0, e0), (q1, e1), (q2, e2) = r
      ok = e0 is edges[(5, 9)] and e1 is edges[(7, 9)] and \
          e2 is edges[(3, 9)] and q0.attrs.get("__src__") is qa and \
          q2.attrs.get("__src__") is qb and \
          q1.attrs.get("mode") == ("SRC" if is_input else "INTERM")
    rep.check(ok, "R6", unit, "input-edge-types",
              "%s: the (type, edge) pairs are %s; expected the converted "
              "quantizer of each incoming edge with that edge, in "
              "predecessor order, and the %s default for the edge without "
              "a quantizer" % (label, r, "source" if is_input
                               else "intermediate"), loc=loc, instance=label)


def rule_estimator_bound(rep, repo, tier):
  """R7: the weight-based estimator (estimate.analyze_accumulator) is
  interpreted on a layer whose kernel and bias entries and whose input range
  are symbols; every path through its python conditions gives the returned
  size as a term.  On a rational grid of weights, biases and ranges the term
  is evaluated (IEEE evaluator, nothing of the repository runs) and compared
  with log2 of the exact largest magnitude max_c max(|P_c*xmax + N_c*xmin +
  b_c|, |P_c*xmin + N_c*xmax + b_c|) (P_c / N_c = sum of the positive /
  negative weights of channel c), which some input inside the range
  attains."""
  import itertools
  import math
  from ..pe import Obj, NDArr, NArr, explore
  from ..ieee import ConstEval, Inconclusive
  es = repo.module(ES)
  fn = es.functions.get("analyze_accumulator")
  if fn is None:
    raise AnalysisError("anchor-missing estimate.analyze_accumulator")
  unit = "%s::analyze_accumulator" % es.relpath
  rep.unit(unit)
  loc = es.loc(fn)
  wvals = (F(-2), F(0), F(3, 2))
  bpairs = ((F(-3), F(1, 2)), (F(0), F(0)), (F(1, 2), F(-3)))
  ranges = [(F(-4), F(1)), (F(-2), F(0)), (F(0), F(3)), (F(-1), F(1)),
            (F(1), F(4)), (F(-4), F(-1)), (F(-2), F(4)), (F(0), F(1, 2)),
            (F(-1, 4), F(1, 2))]
  if tier == "thorough":
    wvals = (F(-2), F(-1, 4), F(0), F(3, 2))
    ranges += [(F(-8), F(1, 8)), (F(-1, 8), F(8)), (F(2), F(2)),
               (F(-3), F(-3))]
  layers = (("QDense", "qkeras.qlayers.QDense", (2, 2)),
            ("QConv2D", "qkeras.qconvolutional.QConv2D", (1, 2, 1, 2)),
            ("QConv1D", "qkeras.qconvolutional.QConv1D", (2, 1, 2)),
            ("QDepthwiseConv2D", "qkeras.qconvolutional.QDepthwiseConv2D",
             (1, 1, 2, 2)))
  npaths = 0
  for lname, qual, shape in layers:
    ci = repo.classes.get(qual)
    if ci is None:
      raise AnalysisError("anchor-missing class %s" % qual)
    for use_bias in (True, False):
      cfg = "%s(kernel %s, use_bias=%s)" % (lname, "x".join(map(str, shape)),
                                            use_bias)
      wsyms = ["w%d%d" % (r, c) for r in range(2) for c in range(2)]
      # w<r><c>: input r, output channel c (last kernel axis)
      k = NDArr.from_flat([Tensor(("sym", n), ()) for n in wsyms], shape)
      b = NArr([Tensor(("sym", "b%d" % c), ()) for c in range(2)])

      def run_(fork, ci=ci, k=k, b=b, use_bias=use_bias):
        pe = PE(repo, module_overrides={
            es.name: {"unfold_model": lambda pe, a, kw: a[0]}})
        pe.opaque_ext = True
        pe.fork = fork
        layer = Obj(ci)
        layer.attrs.update({
            "name": "L", "use_bias": use_bias,
            "get_weights": lambda pe, a, kw: [k, b] if use_bias else [k]})
        model = Mock("model", {"layers": [layer]})
        x = {"L": (Tensor(("sym", "xmin"), ()), Tensor(("sym", "xmax"), ()))}
        return pe.call(pe.lookup_global("analyze_accumulator", es),
                       [model, x], {})
      try:
        paths = explore(run_)
      except Unsupported as e:
        raise AnalysisError("unsupported-construct %s: %s" % (cfg, e))
      bad = None
      npts = 0
      for path, res in paths:
        npaths += 1
        if isinstance(res, Exception):
          rep.fail("R7", unit, "estimator-raises", "%s raises %s" % (cfg, res),
                   loc=loc, instance=cfg)
          continue
        size = res.get("L") if isinstance(res, dict) else None
        if not isinstance(size, Tensor):
          rep.fail("R7", unit, "estimator-result-missing",
                   "%s: no size is returned for the layer (%r)" % (cfg, res),
                   loc=loc, instance=cfg)
          continue
        for ws in itertools.product(wvals, repeat=4):
          for bp in (bpairs if use_bias else ((F(0), F(0)),)):
            for xmin, xmax in ranges:
              syms = dict(zip(wsyms, ws))
              syms.update({"b0": bp[0], "b1": bp[1], "xmin": xmin,
                           "xmax": xmax})
              ev = ConstEval(0.0, syms=syms)
              try:
                if any(bool(ev(t)) != taken for t, taken in path):
                  continue
                got = ev(size.term)
              except Inconclusive as e:
                raise AnalysisError("unsupported-construct %s: %s" % (cfg, e))
              true_max = F(0)
              for c in range(2):
                col = [ws[r * 2 + c] for r in range(2)]
                pp = sum(w for w in col if w > 0)
                nn = sum(w for w in col if w < 0)
                hi = pp * xmax + nn * xmin + bp[c]
                lo = pp * xmin + nn * xmax + bp[c]
                true_max = max(true_max, abs(hi), abs(lo))
              if true_max == 0:
                continue
              npts += 1
              need = math.log2(true_max)
              if not (got == got and got >= need - 1e-9) and bad is None:
                bad = ("weights %s, bias %s, input range (%s, %s): returned "
                       "size %s, but an input inside the range gives "
                       "magnitude %s (log2 = %.3f)" % (
                           [str(w) for w in ws], [str(v) for v in bp]
                           if use_bias else None, xmin, xmax, got, true_max,
                           need))
      rep.check(bad is None, "R7", unit, "estimator-below-reachable-output",
                "%s: %s" % (cfg, bad), loc=loc, instance=cfg,
                facts={"grid_points": npts, "paths": len(paths)})
  rep.extra["estimator_paths"] = npaths


def rule_estimator_from_sample(rep, repo):
  """R8: analyze_accumulator_from_sample, interpreted on a synthetic model
  (four quantized layer classes and one other layer) whose sub-model
  predictions are given: in conservative mode every quantized layer must be
  handed to analyze_accumulator with (min, max) of the samples of ITS OWN
  input; in sampled mode the size reported for a layer must bound log2 of the
  largest magnitude among ITS OWN output samples."""
  from ..pe import Obj, NArr
  es = repo.module(ES)
  fn = es.functions.get("analyze_accumulator_from_sample")
  if fn is None:
    raise AnalysisError("anchor-missing estimate.analyze_accumulator_from_"
                        "sample")
  unit = "%s::analyze_accumulator_from_sample" % es.relpath
  rep.unit(unit)
  loc = es.loc(fn)

  def mk(qual, name):
    ci = repo.classes.get(qual)
    if ci is None:
      raise AnalysisError("anchor-missing class %s" % qual)
    o = Obj(ci)
    o.attrs.update({"name": name, "input": ("in", name),
                    "output": ("out", name)})
    return o
  other = Mock("plain activation layer", {"name": "r", "input": ("in", "r"),
                                          "output": ("out", "r")})
  orders = (
      [mk("qkeras.qlayers.QDense", "a"), other,
       mk("qkeras.qconvolutional.QConv2D", "b"),
       mk("qkeras.qconvolutional.QDepthwiseConv2D", "c"),
       mk("qkeras.qconvolutional.QConv1D", "d")],
      [other, mk("qkeras.qconvolutional.QConv1D", "d"),
       mk("qkeras.qconvolutional.QDepthwiseConv2D", "c"), other,
       mk("qkeras.qlayers.QDense", "a")])
  samples = {
      ("in", "a"): NArr([F(-3), F(2), F(1, 2)]),
      ("in", "b"): NArr([F(0), F(5)]),
      ("in", "c"): NArr([F(-1), F(-7)]),
      ("in", "d"): NArr([F(1), F(1)]),
      ("in", "r"): NArr([F(-100), F(100)]),
      ("out", "a"): NArr([F(-3), F(2)]),
      ("out", "b"): NArr([F(0), F(0)]),
      ("out", "c"): NArr([F(-9), F(4)]),
      ("out", "d"): NArr([F(1, 4), F(1, 8)]),
      ("out", "r"): NArr([F(100)])}
  for oi, layers in enumerate(orders):
    names = [l.attrs["name"] for l in layers if isinstance(l, Obj)]
    for mode in ("conservative", "sampled"):
      cfg = "mode=%s, layers %s" % (mode, "/".join(
          l.attrs["name"] for l in layers))
      cap = {}

      def model_ctor(pe, a, k):
        outs = k.get("outputs", a[1] if len(a) > 1 else None)
        return Mock("evaluation sub-model", {
            "predict": lambda pe2, a2, k2: [samples[o] for o in outs]})

      def aa(pe, a, k, cap=cap):
        cap["model"] = a[0]
        cap["x"] = a[1] if len(a) > 1 else k.get("x")
        return "SIZES"
      pe = PE(repo, module_overrides={es.name: {
          "unfold_model": lambda pe, a, k: a[0],
          "Activation": lambda pe, a, k: (lambda pe2, a2, k2: a2[0]),
          "Model": model_ctor, "analyze_accumulator": aa}})
      pe.opaque_ext = True
      model = Mock("model", {"layers": layers, "inputs": ["model input"]})
      try:
        res = pe.call(pe.lookup_global("analyze_accumulator_from_sample", es),
                      [model, "x_sample"], {"mode": mode})
      except PyRaise as e:
        rep.fail("R8", unit, "from-sample-raises", "%s raises %s" % (cfg, e),
                 loc=loc, instance=cfg)
        continue
      if mode == "conservative":
        want = {n: (min(samples[("in", n)]), max(samples[("in", n)]))
                for n in names}
        got = cap.get("x")
        rep.check(res == "SIZES" and cap.get("model") is model and
                  isinstance(got, dict) and
                  {k_: tuple(v_) for k_, v_ in got.items()} == want,
                  "R8", unit, "input-range-of-another-layer",
                  "%s: analyze_accumulator is handed %r; the (min, max) of "
                  "each quantized layer's own input samples is %r" % (
                      cfg, got, want), loc=loc, instance=cfg)
      else:
        bad = []
        for n in names:
          mx = max(abs(v) for v in samples[("out", n)])
          sz = res.get(n) if isinstance(res, dict) else None
          if not isinstance(sz, (int, F)) or (mx > 0 and F(2) ** int(sz)
                                              < mx):
            bad.append("%s: size %r for output samples with max |v| = %s" %
                       (n, sz, mx))
        rep.check(not bad and isinstance(res, dict) and set(res) ==
                  set(names), "R8", unit, "sampled-size-below-sample",
                  "%s: %s (returned %r)" % (cfg, "; ".join(bad) or
                                            "wrong set of layers", res),
                  loc=loc, instance=cfg)


def digraph_stub():
  """A directed graph with the part of the networkx API that qgraph uses
  (stand-in for nx.DiGraph; the algorithms of qgraph are interpreted)."""
  nodes = {}
  adj = {}

  def add_nodes_from(pe, a, k):
    for item in a[0]:
      n, attrs = item if isinstance(item, (tuple, list)) else (item, {})
      nodes.setdefault(n, {}).update(attrs)
      adj.setdefault(n, {})

  def add_edges_from(pe, a, k):
    for u, v, attrs in a[0]:
      for n in (u, v):
        nodes.setdefault(n, {})
        adj.setdefault(n, {})
      adj[u][v] = attrs

  def remove_node(pe, a, k):
    n = a[0]
    if n not in nodes:
      raise PyRaise("NetworkXError", "node %r not in graph" % (n,))
    del nodes[n]
    del adj[n]
    for u in adj:
      adj[u].pop(n, None)

  def edges(pe, a, k):
    if a:
      return [(a[0], v) for v in adj[a[0]]]
    return [(u, v) for u in adj for v in adj[u]]
  g = Mock("DiGraph", {
      "nodes": nodes, "__adj__": adj,
      "add_nodes_from": add_nodes_from, "add_edges_from": add_edges_from,
      "remove_node": remove_node, "edges": edges,
      "successors": lambda pe, a, k: list(adj[a[0]]),
      "predecessors": lambda pe, a, k: [u for u in adj if a[0] in adj[u]],
      "out_degree": lambda pe, a, k: len(adj[a[0]]),
      "in_degree": lambda pe, a, k: len([u for u in adj if a[0] in adj[u]]),
      "__getitem__": lambda pe, a, k: adj[a[0]]})
  return g, nodes, adj


def topo_sort(adj):
  indeg = {n: 0 for n in adj}
  for u in adj:
    for v in adj[u]:
      indeg[v] += 1
  order, ready = [], sorted(n for n in adj if indeg[n] == 0)
  while ready:
    n = ready.pop(0)
    order.append(n)
    for v in adj[n]:
      indeg[v] -= 1
      if indeg[v] == 0:
        ready.append(v)
  return order


def rule_graph_construction(rep, repo):
  """R9: qgraph.CreateGraph interpreted on a synthetic functional model with
  two inputs, a Dropout to be skipped, a merge and a fan-out (nx.DiGraph is
  a stand-in; GenerateGraphFromModel, GraphAddSingleSourceSingleSink,
  GraphRemoveNode(WithNodeType) are the library's code).  The resulting
  graph must have exactly the producer -> consumer edges between the
  remaining layers, each input quantizer on the edge from the source to the
  consumer of ITS input tensor, every output layer connected to the sink,
  and the producer's output shape on every edge."""
  qg = repo.module("qkeras.qtools.qgraph")
  fn = qg.functions.get("CreateGraph")
  if fn is None or "GenerateGraphFromModel" not in qg.functions:
    raise AnalysisError("anchor-missing qgraph.CreateGraph / "
                        "GenerateGraphFromModel")
  unit = "%s::CreateGraph" % qg.relpath
  rep.unit(unit)
  loc = qg.loc(fn)

  def tensor(name, shape):
    return Mock("tensor " + name, {
        "__tname__": name, "shape": shape,
        "ref": lambda pe, a, k: "ref:" + name,
        "experimental_ref": lambda pe, a, k: "ref:" + name,
        "get_shape": lambda pe, a, k: Mock("TensorShape", {
            "as_list": lambda pe2, a2, k2: list(shape)})})

  def lay(cls, name, inp, out, oshape):
    m = Mock(name, {"name": name, "input": inp, "output": out,
                    "output_shape": oshape,
                    "__class__": Mock("class", {"__name__": cls})})
    m.attrs["get_output_at"] = lambda pe, a, k: out
    return m
  ta, tb = tensor("a", (None, 8)), tensor("b", (None, 6))
  t1, t1d = tensor("t1", (None, 4)), tensor("t1d", (None, 4))
  t2, t3 = tensor("t2", (None, 4)), tensor("t3", (None, 4))
  t4, t5 = tensor("t4", (None, 4)), tensor("t5", (None, 2))
  for order in ("ab", "ba"):
    ins = [lay("InputLayer", "in_a", ta, ta, [(None, 8)]),
           lay("InputLayer", "in_b", tb, tb, [(None, 6)])]
    if order == "ba":
      ins.reverse()
    layers = ins + [
        lay("QDense", "d1", ta, t1, (None, 4)),
        lay("Dropout", "drop", t1, t1d, (None, 4)),
        lay("QDense", "d2", tb, t2, (None, 4)),
        lay("Add", "add", [t1d, t2], t3, (None, 4)),
        lay("QActivation", "act", t3, t4, (None, 4)),
        lay("QDense", "d3", t3, t5, (None, 2))]
    model = Mock("model", {"layers": layers, "inputs": [ta, tb],
                           "outputs": [t4, t5]})
    g, nodes, adj = digraph_stub()
    made = []
    fac = Mock("quantizer factory", {
        "make_quantizer": lambda pe, a, k: made.append(a[0]) or (
            "converted", a[0]),
        "make_default_quantizer": lambda pe, a, k: ("default",
                                                    k.get("mode"))})
    qfm = Mock("quantizer_factory module", {
        "QuantizerFactory": lambda pe, a, k: fac})
    pe = PE(repo, module_overrides={qg.name: {
        "quantizer_factory_module": qfm, "nx": Mock("networkx", {
            "DiGraph": lambda pe, a, k: g,
            "topological_sort": lambda pe, a, k: topo_sort(adj)})}})
    pe.opaque_ext = True
    cfg = "two-input model (inputs listed %s)" % order
    try:
      res = pe.call(pe.lookup_global("CreateGraph", qg),
                    [model, ["QA", "QB"]], {})
    except PyRaise as e:
      rep.fail("R9", unit, "graph-construction-raises", "%s: raises %s" %
               (cfg, e), loc=loc, instance=cfg)
      continue
    idx = {l.attrs["name"]: i for i, l in enumerate(layers)}
    name_of = {i: n for n, i in idx.items()}
    name_of.update({-1: "SOURCE", -2: "SINK"})
    got = sorted((name_of.get(u, u), name_of.get(v, v)) for u in adj
                 for v in adj[u])
    want = sorted([("SOURCE", "d1"), ("SOURCE", "d2"), ("d1", "add"),
                   ("d2", "add"), ("add", "act"), ("add", "d3"),
                   ("act", "SINK"), ("d3", "SINK")])
    rep.check(got == want, "R9", unit, "graph-edges",
              "%s: edges %s, expected %s" % (cfg, got, want), loc=loc,
              instance=cfg, observed=str(got))
    if got != want:
      continue
    qs = {name_of[v]: adj[-1][v].get("quantizer") for v in adj[-1]}
    rep.check(qs == {"d1": ("converted", "QA"), "d2": ("converted", "QB")},
              "R9", unit, "input-quantizer-on-wrong-edge",
              "%s: the source edges carry %r; the quantizer given for input "
              "a belongs on the edge to d1, the one for b on the edge to d2"
              % (cfg, qs), loc=loc, instance=cfg, observed=str(qs))
    inner = {(name_of[u], name_of[v]): adj[u][v].get("quantizer")
             for u in adj for v in adj[u] if u != -1}
    rep.check(all(q is None for q in inner.values()), "R9", unit,
              "quantizer-on-inner-edge-before-propagation",
              "%s: %r" % (cfg, {k_: v_ for k_, v_ in inner.items()
                                if v_ is not None}), loc=loc, instance=cfg)
    shapes = {(name_of[u], name_of[v]): adj[u][v].get("shape")
              for u in adj for v in adj[u] if u != -1 and v != -2}
    want_shapes = {("d1", "add"): (None, 4), ("d2", "add"): (None, 4),
                   ("add", "act"): (None, 4), ("add", "d3"): (None, 4)}
    rep.check({k_: tuple(v_) if isinstance(v_, (list, tuple)) else v_
               for k_, v_ in shapes.items()} == want_shapes, "R9", unit,
              "edge-shape", "%s: edge shapes %r, expected the producer's "
              "output shape %r" % (cfg, shapes, want_shapes), loc=loc,
              instance=cfg)
    kept = sorted(name_of[n] for n in nodes)
    rep.check(kept == sorted(["SOURCE", "SINK", "d1", "d2", "add", "act",
                              "d3"]) and all(
        nodes[idx[n]]["layer"][0] is layers[idx[n]] and
        nodes[idx[n]]["type"] == [layers[idx[n]].attrs["__class__"].attrs[
            "__name__"]] for n in ("d1", "d2", "add", "act", "d3")),
              "R9", unit, "graph-nodes",
              "%s: nodes %s" % (cfg, kept), loc=loc, instance=cfg)
    rep.check(isinstance(res, (tuple, list)) and len(res) == 2 and
              res[0] is g and list(res[1]) == [("converted", "QA"),
                                               ("converted", "QB")], "R9",
              unit, "returned-quantizer-list",
              "%s: returns %r" % (cfg, res[1] if isinstance(
                  res, (tuple, list)) and len(res) == 2 else res), loc=loc,
              instance=cfg)


IF = "qkeras.qtools.interface"


def rule_json_report(rep, repo):
  """R10: the report users read (`QTools._output_dict`) states the types of
  the data-type map.  `interface.map_to_json` is interpreted on a synthetic
  map with one layer per report arm (dense with a fused accumulator, a merge
  layer, batch normalisation, pooling, an activation) whose entries are real
  qtools type objects of every kind with distinct widths.  Report format
  (qtools documentation): fixed point -> bits, int_bits counted INCLUDING the
  sign bit, is_signed; po2 -> bits, is_signed, max_value; binary -> bits,
  int_bits, is_signed, values [-1,1] / [0,1]; ternary -> 2, 2, 1, [0,-1,1];
  float -> bits; operators report their output type plus op_type; a leading
  None of a shape becomes -1; a layer's operation count is copied."""
  from .. import typearith as ta
  im = repo.module(IF)
  fn = im.functions.get("map_to_json")
  if fn is None or "populate_quantizer" not in im.functions:
    raise AnalysisError("anchor-missing interface.map_to_json / "
                        "populate_quantizer")
  unit = "%s::map_to_json" % im.relpath
  rep.unit(unit)
  loc = im.loc(fn)
  pe = PE(repo)
  counter = [0]

  def q(kind):
    o = ta.make_operand(pe, repo, kind, "q")
    counter[0] += 1
    k = counter[0]
    if kind.startswith("fixed"):
      o.attrs["bits"], o.attrs["int_bits"] = 8 + k, 2 + (k % 3)
    elif kind.startswith("po2"):
      o.attrs["bits"] = o.attrs["int_bits"] = 3 + (k % 4)
      o.attrs["max_val_po2"] = F(2) ** (k % 3)
    elif kind == "float":
      o.attrs["bits"] = 16 if k % 2 else 32
    return o

  def want_q(o, shape=None, op=None):
    a = o.attrs
    d = {"quantizer_type": a["name"]}
    if a.get("is_floating_point"):
      d["bits"] = a["bits"]
    elif a.get("is_po2"):
      d.update(bits=a["bits"], is_signed=a["is_signed"],
               max_value=a["max_val_po2"])
    elif a["mode"] in (3, 4):
      d.update(bits=a["bits"], int_bits=a["int_bits"],
               is_signed=a["is_signed"],
               values=[0, 1] if a["mode"] == 4 else [-1, 1])
    elif a["mode"] == 2:
      d.update(bits=2, int_bits=2, is_signed=1, values=[0, -1, 1])
    elif a["mode"] == 0:
      d.update(bits=a["bits"], int_bits=a["int_bits"] + a["is_signed"],
               is_signed=a["is_signed"])
    if shape is not None:
      d["shape"] = tuple(-1 if (i == 0 and e is None) else e
                         for i, e in enumerate(shape)) if isinstance(
                             shape, tuple) else shape
    if op is not None:
      d["op_type"] = op
    return d

  def oper(kind, op):
    out = q(kind)
    return Mock("operator", {"output": out,
                             "implemented_as": lambda pe_, a, k: op}), out

  def layer(cls, name):
    return Mock(name, {"name": name,
                       "__class__": Mock("class", {"__name__": cls})})
  lmap, want = {}, {}
  # dense with every optional entry
  mul, mul_o = oper("fixed_s", "mul")
  acc, acc_o = oper("fixed_s", "add")
  facc, facc_o = oper("fixed_s", "add")
  e = {"input_quantizer_list": [q("fixed_u"), q("po2_s")],
       "output_quantizer": q("fixed_s"), "output_shapes": (None, 7),
       "weight_quantizer": q("po2_u"), "w_shapes": [3, 7],
       "bias_quantizer": q("fixed_s"), "b_shapes": (7,),
       "multiplier": mul, "accumulator": acc, "fused_accumulator": facc,
       "bn_beta_quantizer": q("fixed_s"), "bn_mean_quantizer": q("fixed_s"),
       "bn_inverse_quantizer": q("fixed_u"), "operation_count": 21}
  lmap[layer("QDense", "dense")] = e
  want["dense"] = {
      "layer_type": "QDense",
      "input_quantizer_list": [want_q(x) for x in e["input_quantizer_list"]],
      "output_quantizer": want_q(e["output_quantizer"], (None, 7)),
      "weight_quantizer": want_q(e["weight_quantizer"], [3, 7]),
      "bias_quantizer": want_q(e["bias_quantizer"], (7,)),
      "multiplier": want_q(mul_o, op="mul"),
      "accumulator": want_q(acc_o, op="add"),
      "bn_beta_quantizer": want_q(e["bn_beta_quantizer"]),
      "bn_mean_quantizer": want_q(e["bn_mean_quantizer"]),
      "bn_inverse_quantizer": want_q(e["bn_inverse_quantizer"]),
      "fused_accumulator": want_q(facc_o, op="add"),
      "operation_count": 21}
  # a convolution without bias / fused entries, binary and ternary types
  mul2, mul2_o = oper("fixed_s", "mux")
  acc2, acc2_o = oper("fixed_s", "add")
  e = {"input_quantizer_list": [q("ternary")],
       "output_quantizer": q("float"), "output_shapes": (None, 5, 5, 2),
       "weight_quantizer": q("binary"), "w_shapes": [3, 3, 1, 2],
       "bias_quantizer": None, "b_shapes": None,
       "multiplier": mul2, "accumulator": acc2, "operation_count": 450}
  lmap[layer("QConv2D", "conv")] = e
  want["conv"] = {
      "layer_type": "QConv2D",
      "input_quantizer_list": [want_q(e["input_quantizer_list"][0])],
      "output_quantizer": want_q(e["output_quantizer"], (None, 5, 5, 2)),
      "weight_quantizer": want_q(e["weight_quantizer"], [3, 3, 1, 2]),
      "multiplier": want_q(mul2_o, op="mux"),
      "accumulator": want_q(acc2_o, op="add"), "operation_count": 450}
  # merge layer: the operator is reported under "<class>_quantizer"
  mrg, mrg_o = oper("fixed_s", "add")
  e = {"input_quantizer_list": [q("fixed_s"), q("fixed_s")],
       "output_quantizer": q("fixed_s"), "output_shapes": (None, 4),
       "multiplier": mrg, "operation_count": 4}
  lmap[layer("Add", "add")] = e
  want["add"] = {
      "layer_type": "Add",
      "input_quantizer_list": [want_q(x) for x in e["input_quantizer_list"]],
      "output_quantizer": want_q(e["output_quantizer"], (None, 4)),
      "Add_quantizer": want_q(mrg_o, op="add"), "operation_count": 4}
  # pooling
  psum, psum_o = oper("fixed_u", "add")
  pavg, pavg_o = oper("fixed_u", "mul")
  e = {"input_quantizer_list": [q("fixed_u")],
       "output_quantizer": q("fixed_u"), "output_shapes": (None, 2, 2, 3),
       "average_quantizer": q("binary01"), "pool_sum_accumulator": psum,
       "pool_avg_multiplier": pavg, "operation_count": 48}
  lmap[layer("QAveragePooling2D", "pool")] = e
  want["pool"] = {
      "layer_type": "QAveragePooling2D",
      "input_quantizer_list": [want_q(e["input_quantizer_list"][0])],
      "output_quantizer": want_q(e["output_quantizer"], (None, 2, 2, 3)),
      "average_quantizer": want_q(e["average_quantizer"]),
      "pool_sum_accumulator": want_q(psum_o, op="add"),
      "pool_avg_multiplier": want_q(pavg_o, op="mul"),
      "operation_count": 48}
  # batch normalisation
  idiv, idiv_o = oper("fixed_s", "shifter")
  imul, imul_o = oper("fixed_s", "mul")
  iacc, iacc_o = oper("fixed_s", "add")
  e = {"input_quantizer_list": [q("fixed_s")],
       "output_quantizer": q("fixed_s"), "output_shapes": (None, 3),
       "gamma_quantizer": q("po2_s"), "beta_quantizer": q("fixed_s"),
       "mean_quantizer": q("fixed_s"), "variance_quantizer": q("po2_u"),
       "internal_divide_quantizer": idiv, "internal_multiplier": imul,
       "internal_accumulator": iacc, "operation_count": 3}
  lmap[layer("QBatchNormalization", "bn")] = e
  want["bn"] = {
      "layer_type": "QBatchNormalization",
      "input_quantizer_list": [want_q(e["input_quantizer_list"][0])],
      "output_quantizer": want_q(e["output_quantizer"], (None, 3)),
      "gamma_quantizer": want_q(e["gamma_quantizer"]),
      "beta_quantizer": want_q(e["beta_quantizer"]),
      "mean_quantizer": want_q(e["mean_quantizer"]),
      "variance_quantizer": want_q(e["variance_quantizer"]),
      "internal_divide_quantizer": want_q(idiv_o, op="shifter"),
      "internal_multiplier": want_q(imul_o, op="mul"),
      "internal_accumulator": want_q(iacc_o, op="add"),
      "operation_count": 3}
  # activation: inputs and output only
  e = {"input_quantizer_list": [q("fixed_s")],
       "output_quantizer": q("fixed_u"), "output_shapes": (None, 3),
       "operation_count": 3}
  lmap[layer("QActivation", "act")] = e
  want["act"] = {
      "layer_type": "QActivation",
      "input_quantizer_list": [want_q(e["input_quantizer_list"][0])],
      "output_quantizer": want_q(e["output_quantizer"], (None, 3)),
      "operation_count": 3}
  sources = [q("fixed_s"), q("po2_u")]
  want_sources = [want_q(x) for x in sources]
  try:
    out = pe.call(pe.lookup_global("map_to_json", im), [{
        "source_quantizer_list": sources, "layer_data_type_map": lmap}], {})
  except PyRaise as e_:
    rep.fail("R10", unit, "raises", "map_to_json raises %s" % e_, loc=loc)
    return

  def plain(v):
    if isinstance(v, dict):
      return {k: plain(x) for k, x in v.items()}
    if isinstance(v, (list, tuple)):
      return [plain(x) for x in v]
    if isinstance(v, F) and v.denominator == 1:
      return int(v)
    if isinstance(v, bool):
      return int(v)
    return v
  got = plain(out)
  rep.check(got.get("source_quantizers") == plain(want_sources), "R10", unit,
            "report:source_quantizers",
            "source quantizers reported as %r, the types are %r" % (
                got.get("source_quantizers"), plain(want_sources)), loc=loc)
  for name, w in sorted(want.items()):
    g = got.get(name)
    w = plain(w)
    if not isinstance(g, dict):
      rep.fail("R10", unit, "report-entry-missing:" + name,
               "no report entry for layer %s" % name, loc=loc)
      continue
    for key in sorted(set(w) | set(g)):
      rep.check(g.get(key, "<absent>") == w.get(key, "<absent>"), "R10",
                unit, "report:%s.%s" % (w["layer_type"], key),
                "layer %s: the report says %s = %r, the data-type map entry "
                "is %r" % (name, key, g.get(key, "<absent>"),
                           w.get(key, "<absent>")), loc=loc,
                instance="%s.%s" % (name, key))


def rule_live_scale(rep, repo):
  """R12: with model_weights_already_quantized=False the data-type map
  quantizes the raw weights through qtools_util.get_weights and right
  afterwards reads the kernel quantizer's data-dependent `scale` from
  layer.get_quantizers()[0] (adjust_accumulator_for_auto_po2).  So the call
  inside get_weights has to be made on the layer's LIVE quantizer objects:
  afterwards each of them holds the scale of the weight it was just given.
  Stand-in quantizers record the scale of their last call and can be
  copied."""
  qu = repo.module("qkeras.qtools.qtools_util")
  fn = qu.functions.get("get_weights")
  if fn is None:
    raise AnalysisError("anchor-missing qtools_util.get_weights")
  unit = "%s::get_weights" % qu.relpath
  rep.unit(unit)
  loc = qu.loc(fn)

  def quantizer(tag):
    q = Mock("q_" + tag, {"scale": "scale of an earlier call",
                          "__copyable__": True})

    def call(pe, a, k, q=q):
      # (a copy made by copy.deepcopy gets its own closure-free behaviour:
      # the attribute is written on the object that is CALLED)
      return Tensor(("app", "Q_" + tag, (), (pe.as_term(a[0]),)), None)
    q.attrs["__call__"] = call
    return q
  qs = [quantizer("kernel"), quantizer("bias")]
  called = []

  def make_call(q, tag):
    def call(pe, a, k):
      me = pe.__dict__.get("_current_callee", q)
      called.append((tag, me))
      t_ = pe.as_term(a[0])
      while isinstance(t_, tuple) and t_[0] == "app" and t_[3]:
        t_ = t_[3][0]          # (K.constant(w) and the like wrap the weight)
      me.attrs["scale"] = "scale of %s" % (t_[1] if isinstance(
          t_, tuple) and t_[0] == "sym" else t_,)
      return Tensor(("app", "Q_" + tag, (), (pe.as_term(a[0]),)), None)
    return call
  for q, tag in zip(qs, ("kernel", "bias")):
    q.attrs["__call__"] = make_call(q, tag)
  weights = [Tensor(("sym", "w_kernel"), (4, 3)),
             Tensor(("sym", "w_bias"), (3,))]
  layer = Mock("layer", {"get_weights": lambda pe, a, k: list(weights),
                         "get_quantizers": lambda pe, a, k: list(qs),
                         "name": "dense"})
  pe = PE(repo)
  pe.opaque_ext = True
  try:
    out = pe.call(pe.lookup_global("get_weights", qu), [layer], {
        "model_weights_already_quantized": False})
  except (PyRaise, Unsupported) as e:
    rep.fail("R12", unit, "get_weights-raises", "raises %s" % e, loc=loc)
    return
  for q, tag in zip(qs, ("kernel", "bias")):
    rep.check(str(q.attrs.get("scale")).startswith("scale of w_" + tag),
              "R12", unit, "live-quantizer-not-called:" + tag,
              "after get_weights(layer, model_weights_already_quantized="
              "False) the layer's own %s quantizer holds %r: the scale the "
              "data-type map reads next is not the scale of the current "
              "weights (%d quantizer calls were made, on %s)" % (
                  tag, q.attrs.get("scale"), len(called),
                  "the layer's objects" if all(
                      c[1] in qs for c in called) else "other objects"),
              loc=loc, instance=tag)


def run(rep, repo, tier):
  rep.trusted.append("the factories' own arithmetic is C16/C17; here only "
                     "which values are wired where")
  rep.assumptions.append("the numeric bound (every pre-activation value "
                         "fits the reported accumulator) is NOT decided by "
                         "this check")
  rule_wiring(rep, repo)
  rule_channel_loop(rep, repo)
  rule_po2_exponents(rep, repo, tier)
  rule_auto_po2_adjust(rep, repo)
  rule_propagation(rep, repo)
  rep.require_instances("R5", 12)
  rule_other_arms(rep, repo)
  rule_merge_and_passthrough_arms(rep, repo)
  rule_output_update(rep, repo)
  rule_input_types(rep, repo)
  rule_estimator_bound(rep, repo, tier)
  rep.require_instances("R7", 8)
  rule_estimator_from_sample(rep, repo)
  rep.require_instances("R8", 4)
  rule_graph_construction(rep, repo)
  rep.require_instances("R9", 10)
  rule_json_report(rep, repo)
  rule_live_scale(rep, repo)
  rep.require_instances("R12", 2)
  # the input types the map is built from follow the quantizer objects as
  # they are when the map is generated (shared with C16 R13)
  from .c16 import rule_conversion_follows_object
  if rule_conversion_follows_object(rep, repo, rule="R11") < 8:
    raise AnalysisError("instance-count conversion sequences")
  rep.require_instances("R10", 40)
  rep.require_instances("R6", 25)
  rep.require_instances("R4", 14)
  rep.require_instances("R3", 200)
  rep.require_instances("R1", 40)
  rep.require_instances("R2", 1)
