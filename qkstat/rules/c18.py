"""C18 - reported widths bound real values (wiring clauses only).

The bound itself is numeric (C16/C17 arithmetic composed with the tensors of
a concrete model) and is NOT decided.  What is decided:

R1 wiring of the dense / convolution arm of generate_layer_data_type_map:
   the arm is partially evaluated on a synthetic layer with tagged quantizers
   and recording factories; the multiplier must be built from (weight
   quantizer of get_quantizers()[0], input quantizer of the input edge), the
   kernel accumulator from (kernel shape - spatial dims only for depthwise -,
   that multiplier, use_bias=False), the entry's accumulator must be the bias
   adder of (kernel accumulator output, bias quantizer) when the layer has a
   bias and the kernel accumulator otherwise, the stored entry must bind
   multiplier / accumulator / weight_quantizer / bias_quantizer to those
   values, and the outgoing edge must receive accumulator.output.
R2 channel loop of estimate.analyze_accumulator: a loop index that ranges
   over k.shape[p] and is used as k[..., i] requires p == -1.
R4 auto-po2 adjustment (qtools_util.adjust_multiplier_for_auto_po2 /
   adjust_accumulator_for_auto_po2, interpreted with symbolic widths and a
   symbolic per-channel power-of-two scale): the adjusted multiplier must
   gain log2(max scale) integer bits and log2(1/min scale) fractional bits
   (so that the product with every channel's scale is representable), a
   never-called quantizer leaves it unchanged, and the fused accumulator
   must be built from the adjusted copy - not the original - with the same
   kernel-shape rule (depthwise: spatial dims only) and bias adder as the
   plain accumulator.
R5 activation propagation (qgraph.GraphPropagateActivationsToEdges,
   interpreted on a synthetic graph): every outgoing edge of a vertex - and
   the vertex's out_quantizer - carries the quantizer of QActivation /
   QAdaptiveActivation layers, the inline activation of other layers, and
   None for "linear" or for layers without an activation.
R3 exponent bookkeeping of power-of-two operands: the (min, max) exponent
   pair that qtools derives from a converted quantized_po2 /
   quantized_relu_po2 (get_min_max_exp, on which the shifter, po2 adders and
   accumulators build their integer and fractional bits) must enclose the
   exponent set that the qkeras quantizer itself can emit for the same
   (bits, max_value) - the latter computed by value-set abstract
   interpretation of the quantizer's own code (as in C03).
"""
import ast

from fractions import Fraction as F

from ..loader import AnalysisError
from ..pe import PE, Mock, PyRaise, Tensor, Fork, Unsupported, ConfigRejected
from .. import quant, oracle
from ..qir import value_set

TECHNIQUE = ("Partial evaluation of the dense/conv arm of the data-type map "
             "with recording factories (def-use wiring); AST index rule for "
             "the channel loop of analyze_accumulator.")

GM = "qkeras.qtools.generate_layer_data_type_map"
ES = "qkeras.estimate"
QI = "qkeras.qtools.quantized_operators.quantizer_impl"


def find_arm(fn):
  """The `elif node_type in QKERAS_LAYERS or node_type in KERAS_LAYERS` arm."""
  for n in ast.walk(fn):
    if isinstance(n, ast.If):
      t = ast.unparse(n.test).replace(" ", "")
      if "node_typeinQKERAS_LAYERS" in t and "KERAS_LAYERS" in t:
        return n
  return None


def run_arm(repo, arm, gm, node_type, use_bias, auto_po2=False):
  log = []

  def tagq(tag, **kw):
    a = {"is_po2": 0, "bits": 8, "int_bits": 0, "is_signed": 1, "mode": 0,
         "name": "quantized_bits", "is_floating_point": False}
    a.update(kw)
    return Mock(tag, a)
  qk_w, qk_b = tagq("qkeras_weight_q"), tagq("qkeras_bias_q")
  if auto_po2:
    qk_w.attrs["alpha"] = "auto_po2"
    qk_w.attrs["__str__"] = lambda pe, a, k: \
        "quantized_bits(4,0,1,alpha='auto_po2')"
  else:
    qk_w.attrs["alpha"] = None
    qk_w.attrs["__str__"] = lambda pe, a, k: "quantized_bits(4,0,1)"
  conv = {}

  def make_quantizer(pe, a, k):
    src = a[0]
    t = tagq("qtools(%s)" % getattr(src, "name", src))
    conv[id(t)] = src
    t.attrs["__src__"] = src
    return t
  qf = Mock("quantizer_factory", {
      "make_quantizer": make_quantizer,
      "is_quantizer_supported": lambda pe, a, k: True,
      "make_default_quantizer": lambda pe, a, k: tagq("default")})

  def make_multiplier(pe, a, k):
    m = Mock("multiplier", {"output": tagq("multiplier.output"),
                            "gate_bits": 1, "gate_factor": 1})
    log.append(("make_multiplier", a[0], a[1], m))
    return m

  def make_accumulator(pe, a, k):
    acc = Mock("kernel_accumulator", {"output": tagq("kernel_acc.output")})
    log.append(("make_accumulator", a[0], a[1],
                k.get("use_bias", a[2] if len(a) > 2 else "<default>"), acc))
    return acc

  def adder_make_quantizer(pe, a, k):
    add = Mock("bias_adder", {"output": tagq("bias_adder.output")})
    log.append(("adder.make_quantizer", a[0], a[1], add))
    return add
  qops = Mock("quantized_operators", {
      "MultiplierFactory": Mock("MF", {"__call__": lambda pe, a, k: Mock(
          "mf", {"make_multiplier": make_multiplier})}),
      "AccumulatorFactory": Mock("AF", {"__call__": lambda pe, a, k: Mock(
          "af", {"make_accumulator": make_accumulator})})})
  adder_factory = Mock("adder_factory", {
      "IAdder": Mock("IAdder", {"__call__": lambda pe, a, k: Mock(
          "iadder", {"make_quantizer": adder_make_quantizer})})})
  kshape = (3, 3, 4, 8)
  layer = Mock("layer", {
      "name": "L", "use_bias": use_bias,
      "__class__": Mock("class", {"__name__": node_type}),
      "get_quantizers": lambda pe, a, k: [qk_w, qk_b],
      "get_weights": lambda pe, a, k: [Mock("kernel", {"shape": kshape}),
                                       Mock("bias", {"shape": (8,)})]})
  input_q = tagq("input_quantizer")
  edge_updates = []

  def update_out(pe, a, k):
    edge_updates.append(a[3])
    return a[3]
  def adj_acc(pe, a, k):
    f = Mock("fused_accumulator", {"output": tagq("fused_acc.output")})
    log.append(("adjust_accumulator", a[0], a[1], a[2], a[3], f))
    return f
  qutil = Mock("qtools_util", {
      "adjust_accumulator_for_auto_po2": adj_acc,
      "adjust_multiplier_for_auto_po2": lambda pe, a, k: log.append(
          ("adjust_multiplier", a[0], a[1])),
      "get_weights": lambda pe, a, k: [Mock("kernel", {"shape": kshape}),
                                       Mock("bias", {"shape": (8,)})]})
  pe = PE(repo, module_overrides={gm.name: {
      "update_output_quantizer_in_graph": update_out,
      "quantized_operators": qops, "adder_factory": adder_factory,
      "qtools_util": qutil}})
  pe.opaque_ext = True
  pe.fork = Fork([])
  lmap = {}
  frame = {
      "layer": layer, "node_type": node_type,
      "input_qe_list": [(input_q, {"shape": (None, 8, 8, 4)})],
      "input_quantizer_list": [input_q], "quantizer_factory": qf,
      "for_reference": False, "is_inference": False, "hw_weight_dict": None,
      "keras_quantizer": None, "keras_accumulator": None, "debug": False,
      "cfg": Mock("cfg", {"default_interm_quantizer": "int8"}),
      "layer_data_type_map": lmap, "graph": Mock("graph", {}), "node_id": 1,
      "w_shapes": kshape, "b_shapes": 8, "output_shapes": (None, 8, 8, 8),
      "operation_count": 100, "model_weights_already_quantized": True,
      "is_input_layer": False,
  }
  pe.exec_block(arm.body, [frame], gm)
  return log, lmap, edge_updates, dict(qk_w=qk_w, qk_b=qk_b, input_q=input_q,
                                       layer=layer, kshape=kshape)


def rule_wiring(rep, repo):
  gm = repo.module(GM)
  fn = gm.functions.get("generate_layer_data_type_map")
  if fn is None:
    raise AnalysisError("anchor-missing generate_layer_data_type_map")
  arm = find_arm(fn)
  if arm is None:
    raise AnalysisError("anchor-missing dense/conv arm of "
                        "generate_layer_data_type_map")
  unit = "%s::generate_layer_data_type_map[dense/conv arm]" % gm.relpath
  rep.unit(unit)
  loc = gm.loc(arm)
  for node_type in ("QDense", "QConv2D", "QConv1D", "QDepthwiseConv2D",
                    "Conv2D"):
    for use_bias in (True, False):
      cfg = "%s(use_bias=%s)" % (node_type, use_bias)
      try:
        log, lmap, edges, env = run_arm(repo, arm, gm, node_type, use_bias)
      except PyRaise as e:
        rep.fail("R1", unit, "arm-raises", "%s: the arm raises %s" % (cfg, e),
                 loc=loc, instance=cfg)
        continue
      mm = [l for l in log if l[0] == "make_multiplier"]
      ma = [l for l in log if l[0] == "make_accumulator"]
      ad = [l for l in log if l[0] == "adder.make_quantizer"]
      ok = len(mm) == 1 and isinstance(mm[0][1], Mock) and \
          mm[0][1].attrs.get("__src__") is env["qk_w"] and \
          mm[0][2] is env["input_q"]
      rep.check(ok, "R1", unit, "multiplier-operands",
                "%s: make_multiplier is called with (%s, %s); expected the "
                "converted weight quantizer of get_quantizers()[0] and the "
                "input quantizer of the input edge" %
                (cfg, mm[0][1] if mm else None, mm[0][2] if mm else None),
                loc=loc, instance=cfg)
      want_shape = env["kshape"]
      if "Depthwise" in node_type:
        want_shape = env["kshape"][:-2] + (1, 1)
      ok = len(ma) == 1 and tuple(ma[0][1]) == want_shape and mm and \
          ma[0][2] is mm[0][3] and ma[0][3] is False
      rep.check(ok, "R1", unit, "kernel-accumulator-operands",
                "%s: make_accumulator is called with shape %s, multiplier "
                "%s, use_bias=%s; expected %s, the layer's multiplier, "
                "False" % (cfg, tuple(ma[0][1]) if ma else None,
                           ma[0][2] if ma else None, ma[0][3] if ma else None,
                           want_shape), loc=loc, instance=cfg)
      ent = lmap.get(env["layer"])
      if not isinstance(ent, dict):
        rep.fail("R1", unit, "no-entry-stored",
                 "%s: no entry stored for the layer" % cfg, loc=loc,
                 instance=cfg)
        continue
      if use_bias:
        ok = len(ad) == 1 and ma and ad[0][1] is ma[0][4].attrs["output"] \
            and isinstance(ad[0][2], Mock) and \
            ad[0][2].attrs.get("__src__") is env["qk_b"] and \
            ent.get("accumulator") is ad[0][3]
        rep.check(ok, "R1", unit, "bias-adder-wiring",
                  "%s: with a bias the entry's accumulator must be "
                  "IAdder().make_quantizer(kernel accumulator output, bias "
                  "quantizer); adder calls: %s, stored accumulator: %s" %
                  (cfg, [(a[1], a[2]) for a in ad], ent.get("accumulator")),
                  loc=loc, instance=cfg)
        rep.check(isinstance(ent.get("bias_quantizer"), Mock) and
                  ent["bias_quantizer"].attrs.get("__src__") is env["qk_b"],
                  "R1", unit, "entry-bias-quantizer",
                  "%s: the stored bias_quantizer is %s" %
                  (cfg, ent.get("bias_quantizer")), loc=loc, instance=cfg)
      else:
        rep.check(not ad and ma and ent.get("accumulator") is ma[0][4] and
                  ent.get("bias_quantizer") is None, "R1", unit,
                  "biasless-wiring",
                  "%s: without a bias the entry's accumulator must be the "
                  "kernel accumulator and bias_quantizer None (adder calls "
                  "%d, accumulator %s, bias_quantizer %s)" %
                  (cfg, len(ad), ent.get("accumulator"),
                   ent.get("bias_quantizer")), loc=loc, instance=cfg)
      rep.check(mm and ent.get("multiplier") is mm[0][3] and
                isinstance(ent.get("weight_quantizer"), Mock) and
                ent["weight_quantizer"].attrs.get("__src__") is env["qk_w"],
                "R1", unit, "entry-multiplier/weight-quantizer",
                "%s: the stored multiplier / weight_quantizer are not the "
                "ones built for the layer" % cfg, loc=loc, instance=cfg)
      acc = ent.get("accumulator")
      rep.check(len(edges) == 1 and isinstance(acc, Mock) and
                edges[0] is acc.attrs.get("output"), "R1", unit,
                "edge-does-not-get-accumulator-output",
                "%s: the outgoing edge is updated with %s, expected the "
                "output type of the entry's accumulator" %
                (cfg, edges), loc=loc, instance=cfg)
      # scale-adjusted accumulator entry
      rep.check("fused_accumulator" in ent and
                ent["fused_accumulator"] is ent.get("accumulator") and
                not [l for l in log if l[0].startswith("adjust_")], "R1",
                unit, "fused-accumulator-without-auto-po2",
                "%s: without an auto_po2 kernel the fused_accumulator entry "
                "must be the accumulator itself and no adjustment may run"
                % cfg, loc=loc, instance=cfg)
      try:
        log2, lmap2, _, env2 = run_arm(repo, arm, gm, node_type, use_bias,
                                       auto_po2=True)
      except PyRaise as e:
        rep.fail("R1", unit, "arm-raises:auto_po2",
                 "%s with an auto_po2 kernel: the arm raises %s" % (cfg, e),
                 loc=loc, instance=cfg)
        continue
      ent2 = lmap2.get(env2["layer"]) or {}
      aa = [l for l in log2 if l[0] == "adjust_accumulator"]
      mm2 = [l for l in log2 if l[0] == "make_multiplier"]
      okf = len(aa) == 1 and mm2 and aa[0][1] is env2["layer"] and \
          aa[0][2] is mm2[0][3] and aa[0][3] is env2["qk_w"] and \
          ent2.get("fused_accumulator") is aa[0][5] and \
          ent2.get("accumulator") is not aa[0][5]
      if okf:
        bq = aa[0][4]
        okf = (isinstance(bq, Mock) and bq.attrs.get("__src__") is
               env2["qk_b"]) if use_bias else True
      rep.check(okf, "R1", unit, "fused-accumulator-wiring",
                "%s with an auto_po2 quantized_bits kernel: the "
                "fused_accumulator entry must be "
                "adjust_accumulator_for_auto_po2(layer, the layer's "
                "multiplier, the qkeras weight quantizer, the bias "
                "quantizer) and differ from the plain accumulator; calls: "
                "%s, stored: %s" % (cfg, [(a[1], a[2], a[3], a[4])
                                         for a in aa],
                                    ent2.get("fused_accumulator")),
                loc=loc, instance=cfg)
      if len(rep.samples) < 4:
        rep.sample({"layer": cfg, "calls": [l[0] for l in log],
                    "entry_keys": sorted(ent)})


def rule_channel_loop(rep, repo):
  es = repo.module(ES)
  n = 0
  for fname in ("analyze_accumulator", "analyze_accumulator_from_sample"):
    fn = es.functions.get(fname)
    if fn is None:
      if fname == "analyze_accumulator":
        raise AnalysisError("anchor-missing estimate.analyze_accumulator")
      continue
    unit = "%s::%s" % (es.relpath, fname)
    rep.unit(unit)
    for loop in ast.walk(fn):
      if not isinstance(loop, ast.For) or not isinstance(loop.target,
                                                         ast.Name):
        continue
      it = loop.iter
      if not (isinstance(it, ast.Call) and isinstance(it.func, ast.Name) and
              it.func.id == "range" and len(it.args) == 1):
        continue
      a = it.args[0]
      if not (isinstance(a, ast.Subscript) and isinstance(a.value,
                                                          ast.Attribute) and
              a.value.attr == "shape" and isinstance(a.value.value,
                                                     ast.Name)):
        continue
      arr = a.value.value.id
      idx = a.slice
      pos = None
      if isinstance(idx, ast.Constant):
        pos = idx.value
      elif isinstance(idx, ast.UnaryOp) and isinstance(idx.op, ast.USub) and \
          isinstance(idx.operand, ast.Constant):
        pos = -idx.operand.value
      i = loop.target.id
      last_axis_uses = 0
      for s in ast.walk(loop):
        if isinstance(s, ast.Subscript) and isinstance(s.value, ast.Name) \
            and s.value.id == arr and isinstance(s.slice, ast.Tuple) and \
            len(s.slice.elts) == 2 and isinstance(s.slice.elts[0],
                                                  ast.Constant) and \
            s.slice.elts[0].value is Ellipsis and isinstance(
                s.slice.elts[1], ast.Name) and s.slice.elts[1].id == i:
          last_axis_uses += 1
      if not last_axis_uses:
        continue
      n += 1
      rep.check(pos == -1, "R2", unit, "channel-loop-over-wrong-axis",
                "the loop index ranges over %s.shape[%s] but indexes the "
                "last axis (%s[..., %s]): for convolution kernels only the "
                "first shape[%s] output channels are analysed" %
                (arr, pos, arr, i, pos), loc=es.loc(loop))
  if n < 1:
    raise AnalysisError("instance-count no channel loop found in "
                        "analyze_accumulator")


def rule_po2_exponents(rep, repo, tier, rule="R3"):
  qi = repo.module(QI)
  if "PowerOfTwo" not in qi.classes or "get_exp" not in qi.functions:
    raise AnalysisError("anchor-missing PowerOfTwo / get_exp in "
                        "quantizer_impl")
  unit = "%s::get_exp" % qi.relpath
  rep.unit(unit)
  loc = qi.loc(qi.functions["get_exp"])
  bits_r = range(2, 7) if tier == "quick" else range(2, 9)
  mvs = [None, F(1, 4), F(1, 2), 1, F(3, 2), 2, 3, 4, 5, 6, 7, 8, 12, 24, 100]
  if tier == "thorough":
    mvs += [F(1, 8), F(3, 4), 9, 11, 13, 16, 23, 32, 45, 48, 64, 91, 1000]
  n = 0
  for cls in ("quantized_po2", "quantized_relu_po2"):
    for bits in bits_r:
      for mv in mvs:
        kw = dict(bits=bits, max_value=mv)
        cfg = "%s(%s)" % (cls, oracle.show_kwargs(kw))
        try:
          b = quant.build(repo, cls, kw)
        except ConfigRejected:
          continue
        vs = value_set(b.fwd("infer"))
        if vs.kind != "po2":
          # C03 reports this; nothing to compare here
          continue
        elo, ehi = vs.exps.bounds()
        pe = PE(repo)
        q = pe.call(pe.lookup_global("PowerOfTwo", qi),
                    [cls == "quantized_po2"], {})
        src = Mock(cls, {"__class__": Mock("class", {"__name__": cls}),
                         "bits": bits, "max_value": mv, "negative_slope": 0})
        try:
          pe.call(pe.getattr(q, "convert_qkeras_quantizer"), [src], {})
          r = pe.call(pe.getattr(q, "get_min_max_exp"), [], {})
          mn, mx = F(r[0]), F(r[1])
        except PyRaise as e:
          rep.fail(rule, unit, "exponent-bookkeeping-raises",
                   "%s: get_min_max_exp raises %s" % (cfg, e), loc=loc,
                   instance=cfg)
          continue
        n += 1
        rep.check(ehi <= mx, rule, unit, "max-exponent-too-small",
                  "%s emits exponents up to %s (value %s) but qtools "
                  "reports max exponent %s: integer bits of shifters / po2 "
                  "accumulators are too few" % (cfg, ehi, F(2) ** ehi, mx),
                  loc=loc, instance=cfg)
        rep.check(elo >= -mn, rule, unit, "min-exponent-too-large",
                  "%s emits exponents down to %s but qtools reports min "
                  "exponent -%s: fractional bits of shifters / po2 "
                  "accumulators are too few" % (cfg, elo, mn),
                  loc=loc, instance=cfg)
  if n < 100:
    raise AnalysisError("instance-count only %d po2 configurations "
                        "compared" % n)


def rule_auto_po2_adjust(rep, repo):
  from ..pe import mkfloat
  from ..qir import Fwd
  from ..nf import NF, show
  qu = repo.module("qkeras.qtools.qtools_util")
  for fname in ("adjust_multiplier_for_auto_po2",
                "adjust_accumulator_for_auto_po2"):
    if fname not in qu.functions:
      raise AnalysisError("anchor-missing qtools_util.%s" % fname)
  fn = qu.functions["adjust_multiplier_for_auto_po2"]
  unit = "%s::adjust_multiplier_for_auto_po2" % qu.relpath
  rep.unit(unit)
  loc = qu.loc(fn)

  def S(n):
    return Tensor(("sym", n), ())
  fw = Fwd()
  b, i = NF.sym("b"), NF.sym("i")

  def run(scale_fn, alpha="auto_po2", text="quantized_bits(4,0,1,"
          "alpha='auto_po2')"):
    out = Mock("out", {"bits": S("b"), "int_bits": S("i"), "is_signed": 1})
    mult = Mock("mult", {"output": out})
    wq = Mock("wq", {"alpha": alpha, "__str__": lambda pe, a, k: text})
    pe = PE(repo, module_overrides={qu.name: {
        "get_scale_from_quantized_bits_with_auto_po2": scale_fn}})
    pe.opaque_ext = True
    pe.call(pe.lookup_global("adjust_multiplier_for_auto_po2", qu),
            [mult, wq], {})
    g = lambda v: fw(v.term) if isinstance(v, Tensor) else NF.const(F(v))
    return g(out.attrs["bits"]), g(out.attrs["int_bits"])
  cases = [
      ("per-channel scale array",
       lambda pe, a, k: Tensor(("sym", "scale"), (1, 8)), None),
      ("scalar scale 1/4", lambda pe, a, k: mkfloat(F(1, 4)), (-2, -2)),
      ("scalar scale 8", lambda pe, a, k: mkfloat(F(8)), (3, 3)),
      ("quantizer never called (scale None)", lambda pe, a, k: None, (0, 0)),
  ]
  for label, sfn, shifts in cases:
    try:
      bits, ib = run(sfn)
    except PyRaise as e:
      rep.fail("R4", unit, "adjust-raises:" + label,
               "%s: raises %s" % (label, e), loc=loc)
      continue
    if shifts is None:
      atoms = {a[1]: a for a in (bits - b).atoms() | (ib - i).atoms()
               if a[0] == "app"}
      lmax = [a for a in ib.atoms() if a[0] == "app" and a[1] == "log2"]
      ok = len(lmax) == 1 and ib == i + NF.atom(lmax[0]) and any(
          x[0] == "app" and x[1] == "reduce_max"
          for x in lmax[0][3][0].atoms())
      rep.check(ok, "R4", unit, "int-bits-not-shifted-by-max-scale",
                "%s: int_bits become %s, expected i + log2(max scale)" %
                (label, show(ib)), loc=loc)
      fr_ = bits - ib - (b - i)
      lmin = [a for a in fr_.atoms() if a[0] == "app" and a[1] == "log2"]
      ok = len(lmin) == 1 and fr_ == -NF.atom(lmin[0]) and any(
          x[0] == "app" and x[1] == "reduce_min"
          for x in lmin[0][3][0].atoms())
      rep.check(ok, "R4", unit, "frac-bits-not-shifted-by-min-scale",
                "%s: fractional bits change by %s, expected -log2(min "
                "scale)" % (label, show(fr_)), loc=loc)
    else:
      lo, hi = shifts
      rep.check(ib == i + hi and bits - ib == (b - i) - lo, "R4", unit,
                "scalar-scale-adjustment:" + label,
                "%s: bits=%s int_bits=%s, expected int_bits i%+d and %+d "
                "fractional bits" % (label, show(bits), show(ib), hi, -lo),
                loc=loc)
  # a non-quantized_bits auto_po2 quantizer is documented as unsupported:
  # unchanged
  try:
    bits, ib = run(lambda pe, a, k: mkfloat(F(4)), text="binary(alpha="
                   "'auto_po2')")
    rep.check(bits == b and ib == i, "R4", unit, "unsupported-kind-adjusted",
              "a binary auto_po2 weight quantizer changes the multiplier to "
              "bits=%s int_bits=%s" % (show(bits), show(ib)), loc=loc)
  except PyRaise as e:
    rep.fail("R4", unit, "adjust-raises:binary", "raises %s" % e, loc=loc)
  # ---- fused accumulator wiring
  fn2 = qu.functions["adjust_accumulator_for_auto_po2"]
  unit2 = "%s::adjust_accumulator_for_auto_po2" % qu.relpath
  rep.unit(unit2)
  loc2 = qu.loc(fn2)
  for cname, use_bias in (("QConv2D", True), ("QConv2D", False),
                          ("QDepthwiseConv2D", True), ("QDense", True)):
    log = {}
    kshape = (3, 3, 4, 1) if "Depthwise" in cname else (
        (16, 8) if cname == "QDense" else (3, 3, 4, 8))
    out = Mock("out", {"bits": 8, "int_bits": 2, "is_signed": 1,
                       "__copyable__": True})
    mult = Mock("mult", {"output": out, "__copyable__": True})
    adjusted = []

    def adj(pe, a, k, adjusted=adjusted):
      adjusted.append(a[0])
      a[0].attrs["adjusted"] = True
    acc_out = Mock("kernel_accumulator_output", {})
    kacc = Mock("kernel_accumulator", {"output": acc_out})

    def make_acc(pe, a, k, log=log):
      log["acc"] = (a[0], a[1], k.get("use_bias", a[2] if len(a) > 2
                                      else None))
      return kacc
    bias_adder = Mock("bias_adder", {})

    def make_q(pe, a, k, log=log):
      log["adder"] = (a[0], a[1])
      return bias_adder
    qo = Mock("quantized_operators", {
        "AccumulatorFactory": lambda pe, a, k: Mock(
            "accfac", {"make_accumulator": make_acc}),
        "adder_factory": Mock("adder_factory", {
            "IAdder": lambda pe, a, k: Mock("iadder",
                                            {"make_quantizer": make_q})})})
    layer = Mock(cname, {
        "__class__": Mock("class", {"__name__": cname}),
        "use_bias": use_bias,
        "get_weights": lambda pe, a, k: [Mock("kernel", {"shape": kshape}),
                                         Mock("bias", {"shape": (8,)})]})
    bq = Mock("bias_quantizer", {})
    pe = PE(repo, module_overrides={qu.name: {
        "adjust_multiplier_for_auto_po2": adj, "quantized_operators": qo}})
    pe.opaque_ext = True
    cfg = "%s(use_bias=%s)" % (cname, use_bias)
    try:
      r = pe.call(pe.lookup_global("adjust_accumulator_for_auto_po2", qu),
                  [layer, mult, Mock("wq", {}), bq], {})
    except PyRaise as e:
      rep.fail("R4", unit2, "fused-accumulator-raises", "%s: raises %s" %
               (cfg, e), loc=loc2, instance=cfg)
      continue
    rep.check(len(adjusted) == 1 and adjusted[0] is not mult and
              not mult.attrs.get("adjusted"), "R4", unit2,
              "original-multiplier-modified",
              "%s: the adjustment must be applied to a copy of the "
              "multiplier (the per-layer multiplier entry keeps the "
              "unscaled type)" % cfg, loc=loc2, instance=cfg)
    acc = log.get("acc")
    want_shape = (3, 3, 1, 1) if "Depthwise" in cname else kshape
    rep.check(acc is not None and adjusted and acc[1] is adjusted[0] and
              tuple(acc[0]) == want_shape and acc[2] is False, "R4", unit2,
              "fused-kernel-accumulator-wiring",
              "%s: the fused kernel accumulator is built from %s; expected "
              "(kernel shape %s, the adjusted multiplier copy, "
              "use_bias=False)" % (cfg, acc and (tuple(acc[0]), acc[1],
                                                 acc[2]), want_shape),
              loc=loc2, instance=cfg)
    if use_bias:
      ad = log.get("adder")
      rep.check(r is bias_adder and ad is not None and ad[0] is acc_out and
                ad[1] is bq, "R4", unit2, "fused-bias-adder-wiring",
                "%s: the fused accumulator must be the bias adder of (fused "
                "kernel accumulator output, bias quantizer)" % cfg,
                loc=loc2, instance=cfg)
    else:
      rep.check(r is kacc and "adder" not in log, "R4", unit2,
                "fused-accumulator-without-bias",
                "%s: without a bias the fused accumulator is the fused "
                "kernel accumulator" % cfg, loc=loc2, instance=cfg)


def rule_propagation(rep, repo):
  qg = repo.module("qkeras.qtools.qgraph")
  fn = qg.functions.get("GraphPropagateActivationsToEdges")
  if fn is None:
    raise AnalysisError("anchor-missing qgraph."
                        "GraphPropagateActivationsToEdges")
  unit = "%s::GraphPropagateActivationsToEdges" % qg.relpath
  rep.unit(unit)
  loc = qg.loc(fn)

  def cls(n):
    return Mock("class", {"__name__": n})
  qa = Mock("quantized_relu object", {"__class__": cls("quantized_relu")})
  qb = Mock("quantized_bits object", {"__class__": cls("quantized_bits")})
  qad = Mock("quantized_relu (adaptive)", {"__class__": cls("quantized_relu")})
  linear = Mock("linear function", {"__name__": "linear",
                                    "__class__": cls("function")})
  relu = Mock("relu function", {"__name__": "relu",
                                "__class__": cls("function")})
  L = lambda name, c, **a: Mock(name, dict(a, name=name, __class__=cls(c)))
  layers = {
      1: (L("qdense_with_qa", "QDense", activation=qa), qa),
      2: (L("dense_linear", "Dense", activation=linear), None),
      3: (L("qactivation", "QActivation", activation="quantized_bits(4)",
            quantizer=qb), qb),
      4: (L("pool_without_activation", "MaxPooling2D"), None),
      5: (L("dense_relu", "Dense", activation=relu), relu),
      6: (L("qadaptive", "QAdaptiveActivation", activation="quantized_relu",
            quantizer=qad), qad),
  }
  succ = {0: [1], 1: [2, 3], 2: [4], 3: [4], 4: [5], 5: [6], 6: [7], 7: []}
  edges = {u: {v: {"quantizer": "<unset>", "shape": None} for v in vs}
           for u, vs in succ.items()}
  nodes = {0: {"layer": [None], "type": [None], "out_quantizer": None},
           7: {"layer": [None], "type": [None], "out_quantizer": None}}
  for i, (lyr, _) in layers.items():
    nodes[i] = {"layer": [lyr], "type": [lyr.attrs["__class__"].attrs[
        "__name__"]], "out_quantizer": "<unset>"}
  graph = Mock("graph", {
      "nodes": nodes,
      "edges": lambda pe, a, k: [(a[0], v) for v in succ[a[0]]],
      "__getitem__": lambda pe, a, k: edges[a[0]]})
  pe = PE(repo)
  pe.opaque_ext = True
  pe.ext_overrides = {"*.topological_sort": lambda pe, a, k: list(range(8))}
  try:
    pe.call(pe.lookup_global("GraphPropagateActivationsToEdges", qg),
            [graph], {})
  except PyRaise as e:
    rep.fail("R5", unit, "propagation-raises",
             "raises %s on the synthetic graph" % e, loc=loc)
    return
  for i, (lyr, want) in sorted(layers.items()):
    name = lyr.attrs["name"]
    got = [edges[i][v]["quantizer"] for v in succ[i]]
    rep.check(all(g is want for g in got), "R5", unit,
              "edge-quantizer:" + name,
              "outgoing edges of %s carry %s, expected %s on every edge" %
              (name, got, want), loc=loc)
    rep.check(nodes[i]["out_quantizer"] is want, "R5", unit,
              "out_quantizer:" + name,
              "out_quantizer of %s is %s, expected %s" %
              (name, nodes[i]["out_quantizer"], want), loc=loc)


def run(rep, repo, tier):
  rep.trusted.append("the factories' own arithmetic is C16/C17; here only "
                     "which values are wired where")
  rep.assumptions.append("the numeric bound (every pre-activation value "
                         "fits the reported accumulator) is NOT decided by "
                         "this check")
  rule_wiring(rep, repo)
  rule_channel_loop(rep, repo)
  rule_po2_exponents(rep, repo, tier)
  rule_auto_po2_adjust(rep, repo)
  rule_propagation(rep, repo)
  rep.require_instances("R5", 12)
  rep.require_instances("R4", 14)
  rep.require_instances("R3", 200)
  rep.require_instances("R1", 40)
  rep.require_instances("R2", 1)
