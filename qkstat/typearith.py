"""Symbolic evaluation of qtools' type arithmetic (multiplier / adder /
accumulator / merge output types) with operand widths kept as symbols, and
decision procedures for inequalities between the resulting normal forms."""
from fractions import Fraction as F
import itertools
import math

from .loader import AnalysisError
from .pe import PE, Tensor, Obj, PyRaise, explore, Func
from .qir import Fwd, simplify_app
from .nf import NF, show

QI = "qkeras.qtools.quantized_operators.quantizer_impl"

# operand kinds: (qtools class, attribute overrides, mode)
KINDS = {
    "fixed_s": ("QuantizedBits", {}, 0),
    "fixed_u": ("QuantizedRelu", {"mode": 0}, 0),
    # the same two classes with the other sign: quantized_bits(...,
    # keep_negative=False) and a leaky quantized_relu
    "fixed_ub": ("QuantizedBits", {"is_signed": 0}, 0),
    "fixed_sr": ("QuantizedRelu", {"mode": 0, "is_signed": 1}, 0),
    "po2_s": ("PowerOfTwo", {}, 1),
    "po2_u": ("ReluPowerOfTwo", {}, 1),
    "ternary": ("Ternary", None, 2),
    "binary": ("Binary", None, 3),
    "binary01": ("Binary01", None, 4),
    "float": ("FloatingPoint", None, 5),
}
MODE_KINDS = {0: ["fixed_s", "fixed_u", "fixed_ub", "fixed_sr"], 1: ["po2_s", "po2_u"],
              2: ["ternary"], 3: ["binary"], 4: ["binary01"], 5: ["float"]}


def make_operand(pe, repo, kind, tag, by_fraction=False):
  """Operand quantizer with symbolic widths: bits b<tag>, int_bits i<tag>;
  with by_fraction the fixed-point operands are parametrised by integer and
  fractional bits (bits = i + f + sign), which only describes valid types."""
  qi = repo.module(QI)
  cls, over, _ = KINDS[kind]
  if kind == "binary01":
    q = pe.call(pe.lookup_global("Binary", qi), [], {"use_01": True})
  elif kind == "float":
    q = pe.call(pe.lookup_global("FloatingPoint", qi), [], {"bits": 32})
  else:
    if cls not in qi.classes:
      raise AnalysisError("anchor-missing class %s.%s" % (QI, cls))
    q = pe.call(pe.lookup_global(cls, qi), [], {})
  if over is not None:
    q.attrs["bits"] = Tensor(("sym", "b" + tag), ())
    q.attrs["int_bits"] = Tensor(("sym", "i" + tag), ())
    if kind.startswith("po2"):
      q.attrs["int_bits"] = q.attrs["bits"]
    q.attrs.update(over)
    if by_fraction and kind.startswith("fixed"):
      sgn = int(bool(q.attrs.get("is_signed")))
      q.attrs["bits"] = Tensor(("add", ("add", ("sym", "i" + tag),
                                        ("sym", "f" + tag)),
                                ("c", F(sgn))), ())
  return q


def sibling_operands(repo):
  """IQuantizer subclasses of quantizer_impl that are not one of the KINDS
  classes, each with the KINDS kind it must behave like (same mode / value
  set): [(class name, kind)]."""
  qi = repo.module(QI)
  base_of = {v[0]: k for k, v in KINDS.items()
             if k not in ("binary01", "fixed_ub", "fixed_sr")}
  out = []
  for cname, ci in sorted(qi.classes.items()):
    if cname in base_of or cname == "IQuantizer":
      continue
    names = [c.name for c in ci.mro()]
    if "IQuantizer" not in names:
      continue
    kind = None
    for b in names[1:]:
      if b in base_of:
        kind = base_of[b]
        break
    if kind is not None:
      out.append((cname, kind))
  return out


def make_sibling(pe, repo, cname, kind, tag):
  """Operand of class `cname` with the same symbolic widths make_operand
  gives to `kind`."""
  qi = repo.module(QI)
  q = pe.call(pe.lookup_global(cname, qi), [], {})
  _, over, _ = KINDS[kind]
  if over is not None:
    q.attrs["bits"] = Tensor(("sym", "b" + tag), ())
    q.attrs["int_bits"] = Tensor(("sym", "i" + tag), ())
    if kind.startswith("po2"):
      q.attrs["int_bits"] = q.attrs["bits"]
  return q


def field(o, name, fw=None):
  v = o.attrs.get(name)
  if isinstance(v, Tensor):
    return (fw or Fwd())(v.term)
  if isinstance(v, bool):
    return NF.const(int(v))
  if isinstance(v, (int, F)):
    return NF.const(v)
  return v


def frac_bits(o, fw=None):
  return field(o, "bits", fw) - field(o, "is_signed", fw) - \
      field(o, "int_bits", fw)


# ---------------------------------------------------------------------------
# numeric evaluation of NFs over integer symbols

def nf_eval(nf, env):
  total = F(0)
  for m, c in nf.terms.items():
    t = F(c)
    for a, e in m:
      v = atom_eval(a, env)
      if e < 0 and v == 0:
        raise ZeroDivisionError()
      t *= F(v) ** e
    total += t
  return total


def atom_eval(a, env):
  if a[0] == "sym":
    if a[1] not in env:
      raise KeyError(a[1])
    return F(env[a[1]])
  if a[0] == "x":
    return F(env["x"])
  f, attrs, args = a[1], a[2], a[3]
  vs = [nf_eval(x, env) if isinstance(x, NF) else x for x in args]
  if f == "maximum":
    return max(vs)
  if f == "minimum":
    return min(vs)
  if f == "ceil":
    return F(math.ceil(vs[0]))
  if f == "floor":
    return F(math.floor(vs[0]))
  if f == "round":
    return F(round(vs[0]))
  if f == "abs":
    return abs(vs[0])
  if f == "pow2":
    if vs[0].denominator == 1:
      return F(2) ** int(vs[0])
    return F(2.0 ** float(vs[0]))
  if f == "log2":
    if vs[0] <= 0:
      raise ZeroDivisionError()
    n, d = vs[0].numerator, vs[0].denominator
    if n & (n - 1) == 0 and d & (d - 1) == 0:
      return F(n.bit_length() - d.bit_length())
    return F(math.log2(float(vs[0])))
  if f == "sqrt":
    return F(math.sqrt(float(vs[0])))
  if f == "cmp":
    a_, b_ = vs
    return F(int({"lt": a_ < b_, "le": a_ <= b_, "gt": a_ > b_,
                  "ge": a_ >= b_, "eq": a_ == b_, "ne": a_ != b_}[attrs[0]]))
  if f == "where":
    return vs[1] if vs[0] != 0 else vs[2]
  raise KeyError("atom " + f)


def literals(path, fw=None):
  """Path condition -> list of (NF d, strict) meaning d > 0 / d >= 0."""
  fw = fw or Fwd()
  out = []
  for t, taken in path:
    if t[0] != "cmp":
      continue
    op, a, b = t[1], fw(t[2]), fw(t[3])
    if not taken:
      op = {"lt": "ge", "le": "gt", "gt": "le", "ge": "lt", "eq": "ne",
            "ne": "eq"}[op]
    if op == "gt":
      out.append((a - b, True))
    elif op == "ge":
      out.append((a - b, False))
    elif op == "lt":
      out.append((b - a, True))
    elif op == "le":
      out.append((b - a, False))
    elif op == "eq":
      out.append((a - b, False))
      out.append((b - a, False))
  return out


def holds(lits, env):
  for d, strict in lits:
    try:
      v = nf_eval(d, env)
    except (KeyError, ZeroDivisionError):
      return False
    if v < 0 or (strict and v == 0):
      return False
  return True


def prove_ge(lhs, rhs, domains, lits=(), integer_syms=True, limit=60000):
  """Decide lhs >= rhs for all assignments of the symbols (integers in
  `domains`: name -> iterable of candidate values, used for the witness
  search) satisfying the path literals.
  Returns ('proved'|'refuted'|'bounded', witness)."""
  d = lhs - rhs
  c = d.const_value()
  if c is not None:
    return ("proved", None) if c >= 0 else ("refuted", {})
  for L, strict in lits:
    r = (d - L).const_value()
    if r is not None and r >= 0:
      return "proved", None
    if integer_syms and strict:
      # integers: L > 0 means L >= 1
      r = (d - L + 1).const_value()
      if r is not None and r >= 0:
        return "proved", None
  names = sorted({a[1] for a in d.atoms() if a[0] == "sym"} |
                 {a[1] for L, _ in lits for a in L.atoms() if a[0] == "sym"})
  doms = []
  for n in names:
    if n not in domains:
      raise AnalysisError("unsupported-construct no domain for symbol %s"
                          % n)
    doms.append(list(domains[n]))
  total = 1
  for dm in doms:
    total *= len(dm)
  if total > limit:
    # thin the domains deterministically
    k = max(2, int(limit ** (1.0 / max(1, len(doms)))))
    doms = [dm if len(dm) <= k else dm[::max(1, len(dm) // k)] for dm in doms]
  for vals in itertools.product(*doms):
    env = dict(zip(names, vals))
    if lits and not holds(lits, env):
      continue
    try:
      v = nf_eval(d, env)
    except (KeyError, ZeroDivisionError):
      continue
    if v < 0:
      return "refuted", env
  return "bounded", None


def show_env(env):
  return ", ".join("%s=%s" % (k, v) for k, v in sorted((env or {}).items()))
