"""Configuration-specialising partial evaluator (DESIGN 2.3).

A small abstract interpreter over Python `ast` for the quantizer code of
qkeras/quantizers.py.  Constructor constants are concrete (exact Fractions),
the input tensor is the symbol `x`; tensor-valued expressions become IR terms.
Nothing of the repository is imported or executed: the interpreter walks the
syntax trees held by `loader.Repo`.

IR terms (hashable tuples):
  ('c', Fraction) | ('x',) | ('sym', name)
  ('add', a, b) | ('mul', a, b) | ('div', a, b) | ('neg', a)
  ('sg', a)                       tf.stop_gradient
  ('app', fname, attrs, args)     primitive application
  ('where', c, a, b) | ('cmp', op, a, b) | ('bool', op, args...)
  ('phase', train, infer)         smart_cond(K.learning_phase(), ...)
  ('rand', id, lo, hi)            tf.random.uniform
  ('join', alt0, alt1, ...)       tf.while_loop summary (any of the iterates)
"""
import ast
import os
from fractions import Fraction
import math

from .loader import AnalysisError, canon_external

LN2 = ("sym", "ln2")


class ConfigRejected(Exception):
  """The analysed code itself rejects this configuration (assert / raise)."""


class PyRaise(Exception):
  def __init__(self, exc_name, msg=""):
    Exception.__init__(self, "%s: %s" % (exc_name, msg))
    self.exc_name = exc_name


class Unsupported(AnalysisError):
  pass


class _Return(Exception):
  def __init__(self, value):
    self.value = value


class _Break(Exception):
  pass


class _Continue(Exception):
  pass


# ---------------------------------------------------------------------------
# values

class Tensor(object):
  __slots__ = ("term", "shape")

  def __init__(self, term, shape=None):
    self.term = term
    self.shape = shape   # tuple of ints or None (scalar / unknown)

  def __repr__(self):
    return "Tensor(%s)" % (show_term(self.term),)


class Var(Tensor):
  """tf.Variable: a mutable cell; `.assign(v)` replaces its content, the
  object identity (and hence every reference to it) is preserved."""
  __slots__ = ()

  def content(self):
    return self.term[3][0]


def make_var(term):
  return Var(("app", "variable", (), (term,)), ())


class Obj(object):
  def __init__(self, cls):
    self.cls = cls
    self.attrs = {}

  def __repr__(self):
    return "<Obj %s>" % self.cls.name


class Func(object):
  def __init__(self, node, module, closure, name, self_obj=None, owner=None):
    self.node = node
    self.module = module
    self.closure = closure    # list of dict frames (innermost last)
    self.name = name
    self.self_obj = self_obj
    self.owner = owner        # ClassInfo the function is defined in
    self.defaults = None      # default values bound when a nested def /
                              # lambda was created (python binds them then)

  def bind(self, obj):
    f = Func(self.node, self.module, self.closure, self.name, obj,
             self.owner)
    f.defaults = self.defaults
    return f

  def __repr__(self):
    return "<Func %s>" % self.name


class ClassRef(object):
  def __init__(self, cls):
    self.cls = cls

  def __repr__(self):
    return "<ClassRef %s>" % self.cls.name

  # two references to the same class are the same class object
  def __eq__(self, other):
    return isinstance(other, ClassRef) and other.cls is self.cls

  def __ne__(self, other):
    return not self.__eq__(other)

  def __hash__(self):
    return hash(id(self.cls))


class Ext(object):
  """External (non-repository) module, function or type, by canonical
  dotted name."""

  def __init__(self, name):
    self.name = name

  def __repr__(self):
    return "<Ext %s>" % self.name

  def __eq__(self, other):
    return isinstance(other, Ext) and other.name == self.name

  def __hash__(self):
    return hash(("Ext", self.name))


class ShapeV(object):
  def __init__(self, dims):
    self.dims = list(dims)


class SuperProxy(object):
  def __init__(self, obj, after):
    self.obj = obj
    self.after = after


class Opaque(object):
  def __init__(self, desc):
    self.desc = desc

  def __repr__(self):
    return "<Opaque %s>" % self.desc


class Mock(object):
  """Synthetic object supplied by a rule (e.g. a Keras layer): attributes are
  values; python callables are invoked as f(pe, args, kwargs)."""

  def __init__(self, name, attrs=None):
    self.name = name
    self.attrs = dict(attrs or {})

  def __repr__(self):
    return "<Mock %s>" % self.name


class BoundPrim(object):
  """A method of a tensor / list / dict value."""

  def __init__(self, recv, name):
    self.recv = recv
    self.name = name


def is_num(v):
  return isinstance(v, (int, Fraction, float))


def fr(v):
  if isinstance(v, bool):
    return Fraction(int(v))
  if isinstance(v, float):
    return Fraction(v)
  return Fraction(v)


def norm_num(v):
  """Fractions with denominator 1 stay Fractions (float-ness is not tracked);
  python ints stay ints."""
  return v


def C(v):
  return ("c", fr(v))


def show_term(t, depth=0):
  if depth > 12:
    return "..."
  k = t[0]
  if k == "c":
    c = t[1]
    return str(c.numerator) if c.denominator == 1 else "%d/%d" % (
        c.numerator, c.denominator)
  if k == "x":
    return "x"
  if k == "sym":
    return str(t[1])
  if k in ("add", "mul", "div"):
    op = {"add": "+", "mul": "*", "div": "/"}[k]
    return "(%s %s %s)" % (show_term(t[1], depth + 1), op,
                           show_term(t[2], depth + 1))
  if k == "neg":
    return "-%s" % show_term(t[1], depth + 1)
  if k == "sg":
    return "sg(%s)" % show_term(t[1], depth + 1)
  if k == "app":
    return "%s%s(%s)" % (t[1], "{%s}" % ",".join(map(str, t[2])) if t[2]
                         else "", ", ".join(show_term(a, depth + 1)
                                            for a in t[3]))
  if k == "where":
    return "where(%s, %s, %s)" % tuple(show_term(a, depth + 1) for a in t[1:])
  if k == "cmp":
    return "(%s %s %s)" % (show_term(t[2], depth + 1), t[1],
                           show_term(t[3], depth + 1))
  if k == "phase":
    return "phase(train=%s, infer=%s)" % (show_term(t[1], depth + 1),
                                          show_term(t[2], depth + 1))
  if k == "rand":
    return "U#%s" % (t[1],)
  if k == "join":
    return "join(%s)" % ", ".join(show_term(a, depth + 1) for a in t[1:])
  if k == "bool":
    return "%s(%s)" % (t[1], ", ".join(show_term(a, depth + 1)
                                       for a in t[2:]))
  return repr(t)


# ---------------------------------------------------------------------------

TYPE_NAMES = {
    "six.string_types": "str", "str": "str", "int": "int", "float": "float",
    "list": "list", "tuple": "tuple", "dict": "dict", "bool": "bool",
    "np.ndarray": "ndarray", "tf.Variable": "Variable", "tf.Tensor": "Tensor",
    "type": "type",
}


class FloatTag(Fraction):
  """A Fraction that came from a float literal / float-valued operation.
  Only isinstance(v, float/int) tests observe the difference."""


class NpFloat(FloatTag):
  """A numpy float64 scalar (e.g. the result of np.max(np.abs(w)) handed to
  a constructor): str() prints it like a python float, repr() prints
  "np.float64(...)" (NumPy >= 2)."""


# developer aid: which repository functions the interpreter entered
# (QKSTAT_COVER=<file> appends them at exit)
COVERAGE = None
if os.environ.get("QKSTAT_COVER"):
  import atexit
  import json as _json
  COVERAGE = set()

  def _dump_cover():
    path = os.environ["QKSTAT_COVER"]
    try:
      old = set(map(tuple, _json.load(open(path))))
    except Exception:  # pylint: disable=broad-except
      old = set()
    _json.dump(sorted(old | COVERAGE), open(path, "w"))
  atexit.register(_dump_cover)


class FormattedNumber(str):
  """The text of one number produced by "{:.nf}".format(x)."""

  def __new__(cls, value):
    o = str.__new__(cls, "<formatted number>")
    o.value = value
    return o


class DefaultDict(dict):
  """collections.defaultdict with a list / dict / int factory."""

  def __init__(self, factory):
    dict.__init__(self)
    self.default_factory = factory

  def __missing__(self, key):
    if self.default_factory is None:
      raise KeyError(key)
    v = self.default_factory()
    self[key] = v
    return v


class NArr(list):
  """A concrete numpy / tensorflow array of numbers (np.asarray, tf.range,
  tf.concat of such): arithmetic and comparisons are element-wise."""


class NDArr(object):
  """A concrete numpy array of rank >= 2 (e.g. a kernel mask): nested python
  lists of exact numbers plus the shape; only shape operations are
  supported."""

  def __init__(self, nested):
    self.nested = nested
    shp = []
    v = nested
    while isinstance(v, list):
      shp.append(len(v))
      v = v[0] if v else None
    self.shape = tuple(shp)

  def flat(self):
    out = []

    def walk(v):
      if isinstance(v, list):
        for e in v:
          walk(e)
      else:
        out.append(v)
    walk(self.nested)
    return out

  @staticmethod
  def from_flat(flat, shape):
    def build(vals, shp):
      if not shp:
        return vals[0]
      n = 1
      for d in shp[1:]:
        n *= d
      return [build(vals[i * n:(i + 1) * n], shp[1:]) for i in range(shp[0])]
    shape = tuple(int(d) for d in shape)
    total = 1
    for d in shape:
      total *= d
    if total != len(flat):
      raise PyRaise("ValueError", "cannot reshape array of size %d into "
                    "shape %s" % (len(flat), shape))
    if len(shape) == 0:
      return flat[0]
    if len(shape) == 1:
      return NArr(flat)
    return NDArr(build(list(flat), shape))

  def __repr__(self):
    return "<NDArr shape=%s>" % (self.shape,)


def nd_equal(a, b):
  """Same shape and values (NDArr / NArr / nested lists)."""
  sa = a.shape if isinstance(a, NDArr) else ((len(a),) if isinstance(
      a, list) else None)
  sb = b.shape if isinstance(b, NDArr) else ((len(b),) if isinstance(
      b, list) else None)
  fa = a.flat() if isinstance(a, NDArr) else a
  fb = b.flat() if isinstance(b, NDArr) else b
  return sa == sb and list(fa) == list(fb)


def is_floaty(v):
  return isinstance(v, FloatTag)


def mkfloat(v):
  f = Fraction(v)
  return FloatTag(f.numerator, f.denominator)


_MISSING = object()
_TRANSPARENT_SCOPES = ("init_scope", "name_scope", "control_dependencies",
                       "device", "colocate_with", "variable_scope")


class PE(object):
  """One interpreter instance = one configuration point."""

  MAX_DEPTH = 40

  def __init__(self, repo, image_data_format="channels_last",
               x_shape=(4, 6), module_overrides=None):
    self.repo = repo
    self.image_data_format = image_data_format
    self.x_shape = tuple(x_shape)
    self.globals = {}     # module name -> dict
    self.locs = {}        # term -> "file:line" first seen
    self.rand_counter = 0
    self.depth = 0
    self.cur_module = None
    self.cur_node = None
    self.stores = []      # (obj, attr, value) attribute stores in order
    self.arm_log = None   # {(id(obj), attr): (obj, attr, old)} inside a
                          # learning-phase arm (prims: smart_cond)
    self.trace_calls = []  # (callee name, loc)
    self.module_overrides = module_overrides or {}
    self.unsupported = []
    self.fork = None      # Fork instance: symbolic python conditions allowed

  # -- helpers -----------------------------------------------------------
  def err(self, msg, node=None):
    node = node or self.cur_node
    loc = self.cur_module.loc(node) if (self.cur_module and node) else "?"
    raise Unsupported("unsupported-construct %s %s" % (loc, msg))

  def note_loc(self, term):
    # keyed by identity: terms are DAGs of shared tuples and must never be
    # hashed or compared structurally (exponential on shared sub-terms)
    if id(term) not in self.locs and self.cur_module is not None and \
        self.cur_node is not None:
      self.locs[id(term)] = (term, self.cur_module.loc(self.cur_node))
    return term

  def loc_of(self, term):
    r = self.locs.get(id(term))
    return r[1] if r else None

  def x_input(self):
    return Tensor(("x",), self.x_shape)

  # -- module globals ----------------------------------------------------
  def module_globals(self, module):
    g = self.globals.get(module.name)
    if g is not None:
      return g
    g = {}
    self.globals[module.name] = g
    saved = (self.cur_module, self.cur_node)
    self.cur_module = module
    for st in module.tree.body:
      try:
        self._exec_toplevel(st, module, g)
      except (Unsupported, ConfigRejected, PyRaise, _Return):
        pass
    g.update(self.module_overrides.get(module.name, {}))
    self.cur_module, self.cur_node = saved
    return g

  def _exec_toplevel(self, st, module, g):
    if isinstance(st, ast.FunctionDef):
      g[st.name] = Func(st, module, [], st.name)
      # default values are computed once, when the def statement runs (not
      # at call time): a default that calls something keeps the answer it
      # got at import, a mutable default is one shared object
      cache = self.__dict__.setdefault("_def_defaults", {})
      for di, d in enumerate(st.args.defaults):
        try:
          cache[(id(st), di)] = self.eval(d, [g], module)
        except (Unsupported, ConfigRejected, PyRaise, _Return):
          pass
    elif isinstance(st, ast.ClassDef):
      g[st.name] = ClassRef(module.classes[st.name])
    elif isinstance(st, (ast.Import, ast.ImportFrom)):
      pass   # resolved lazily through module.resolve
    elif isinstance(st, ast.Assign):
      frames = [g]
      val = self.eval(st.value, frames, module)
      for t in st.targets:
        self.assign(t, val, frames, module)
    elif isinstance(st, ast.Expr):
      if isinstance(st.value, ast.Call):
        self.eval(st.value, [g], module)
    elif isinstance(st, (ast.For, ast.AugAssign, ast.AnnAssign, ast.With,
                         ast.Try, ast.Delete)):
      # module-level code that builds or extends a table
      self.exec_stmt(st, [g], module)
    elif isinstance(st, ast.If):
      t = ast.unparse(st.test).replace('"', "'")
      if t != "__name__ == '__main__'":
        self.exec_stmt(st, [g], module)

  def class_attr_assigned(self, ci, name):
    """(found, value) of a class attribute assigned at run time, looked up
    along the MRO of `ci`."""
    table = self.__dict__.get("_class_attr_set")
    if table:
      for c in ci.mro():
        if (id(c), name) in table:
          return True, table[(id(c), name)]
    return False, None

  def class_attr_value(self, owner, name, expr):
    """A class-level attribute is evaluated once, when the class body runs:
    a mutable value (a dict used as a cache, a list) is one object shared
    by the class and all its instances."""
    memo = self.__dict__.setdefault("_class_attr_vals", {})
    key = (id(owner), name)
    if key not in memo:
      memo[key] = self.eval(expr, [{}], owner.module)
    return memo[key]

  def _bind_defaults(self, f, frames, module):
    """Positional defaults of a nested def / lambda are evaluated when the
    function object is created (the `lambda x, k=k:` idiom in a loop)."""
    vals = {}
    for di, d in enumerate(f.node.args.defaults):
      try:
        vals[di] = self.eval(d, frames, module)
      except (Unsupported, ConfigRejected, PyRaise):
        pass       # evaluated (and reported) if the default is ever needed
    f.defaults = vals
    return f

  def lookup_global(self, name, module):
    g = self.module_globals(module)
    if name in g:
      return g[name]
    if name in module.assigns and name not in module.imports:
      # the top-level assignment could not be evaluated by the interpreter
      self.err("module-level value %s.%s is not statically evaluable" %
               (module.name, name))
    full = module.resolve(name)
    return self.value_of_dotted(full, name)

  def value_of_dotted(self, full, orig=None):
    # repository object?
    parts = full.split(".")
    for i in range(len(parts), 0, -1):
      modname = ".".join(parts[:i])
      if modname in self.repo.modules:
        m = self.repo.modules[modname]
        if i == len(parts):
          return ModuleRef(m)
        v = self.lookup_global(parts[i], m) if (
            parts[i] in m.functions or parts[i] in m.classes or
            parts[i] in m.assigns) else None
        if v is None:
          break
        for p in parts[i + 1:]:
          v = self.getattr(v, p)
        return v
    if full in BUILTINS:
      return Ext(full)
    return Ext(canon_external(full))

  # -- statements --------------------------------------------------------
  def exec_block(self, stmts, frames, module):
    for st in stmts:
      self.exec_stmt(st, frames, module)

  def exec_stmt(self, st, frames, module):
    self.cur_node = st
    self.cur_module = module
    if isinstance(st, ast.Expr):
      if isinstance(st.value, ast.Constant):
        return
      self.eval(st.value, frames, module)
    elif isinstance(st, ast.Assign):
      val = self.eval(st.value, frames, module)
      for t in st.targets:
        self.assign(t, val, frames, module)
    elif isinstance(st, ast.AnnAssign):
      if st.value is not None:
        self.assign(st.target, self.eval(st.value, frames, module), frames,
                    module)
    elif isinstance(st, ast.AugAssign):
      cur = self.eval(_as_load(st.target), frames, module)
      val = self.eval(st.value, frames, module)
      if isinstance(st.op, ast.Add) and type(cur) is list and isinstance(
          val, (list, tuple)):
        # list += iterable extends the SAME list object (every other
        # reference to it sees the new entries)
        cur.extend(val)
        self.assign(st.target, cur, frames, module)
      elif isinstance(st.op, ast.BitOr) and type(cur) is dict and \
          isinstance(val, dict):
        cur.update(val)
        self.assign(st.target, cur, frames, module)
      else:
        self.assign(st.target, self.binop(st.op, cur, val), frames, module)
    elif isinstance(st, ast.Return):
      raise _Return(self.eval(st.value, frames, module)
                    if st.value is not None else None)
    elif isinstance(st, ast.If):
      c = self.truth(self.eval(st.test, frames, module), st.test)
      self.exec_block(st.body if c else st.orelse, frames, module)
    elif isinstance(st, ast.For):
      it = self.iterate(self.eval(st.iter, frames, module))
      broke = False
      for v in it:
        self.assign(st.target, v, frames, module)
        try:
          self.exec_block(st.body, frames, module)
        except _Break:
          broke = True
          break
        except _Continue:
          continue
      if not broke:
        self.exec_block(st.orelse, frames, module)
    elif isinstance(st, ast.While):
      n = 0
      while self.truth(self.eval(st.test, frames, module), st.test):
        n += 1
        if n > 256:
          self.err("while loop exceeds 256 iterations", st)
        try:
          self.exec_block(st.body, frames, module)
        except _Break:
          break
        except _Continue:
          continue
    elif isinstance(st, ast.Assert):
      c = self.truth(self.eval(st.test, frames, module), st.test)
      if not c:
        raise PyRaise("AssertionError", module.src(st.test))
    elif isinstance(st, ast.Raise):
      name = "Exception"
      if st.exc is not None:
        e = st.exc
        if isinstance(e, ast.Call):
          e = e.func
        name = ast.unparse(e).split(".")[-1]
      raise PyRaise(name, "raise at %s" % module.loc(st))
    elif isinstance(st, ast.Try):
      try:
        self.exec_block(st.body, frames, module)
      except PyRaise as e:
        for h in st.handlers:
          names = []
          if h.type is None:
            names = None
          elif isinstance(h.type, ast.Tuple):
            names = [ast.unparse(t).split(".")[-1] for t in h.type.elts]
          else:
            names = [ast.unparse(h.type).split(".")[-1]]
          if names is None or e.exc_name in names or "Exception" in names:
            self.exec_block(h.body, frames, module)
            break
        else:
          raise
      else:
        self.exec_block(st.orelse, frames, module)
      finally:
        if st.finalbody:
          self.exec_block(st.finalbody, frames, module)
    elif isinstance(st, ast.With):
      # TensorFlow scoping helpers do not change what the body computes
      for item in st.items:
        ce = item.context_expr
        fn = ce.func if isinstance(ce, ast.Call) else ce
        name = ast.unparse(fn).split(".")[-1]
        if name not in _TRANSPARENT_SCOPES:
          self.err("statement With over %s" % ast.unparse(fn), st)
        if item.optional_vars is not None:
          self.assign(item.optional_vars, Mock(name, {}), frames, module)
      self.exec_block(st.body, frames, module)
    elif isinstance(st, ast.FunctionDef):
      frames[-1][st.name] = self._bind_defaults(
          Func(st, module, list(frames), st.name), frames, module)
    elif isinstance(st, ast.Pass):
      return
    elif isinstance(st, ast.Break):
      raise _Break()
    elif isinstance(st, ast.Continue):
      raise _Continue()
    elif isinstance(st, ast.Global):
      frames[-1].setdefault("__globals__", set()).update(st.names)
    elif isinstance(st, ast.Nonlocal):
      frames[-1].setdefault("__nonlocals__", set()).update(st.names)
    elif isinstance(st, (ast.Import, ast.ImportFrom)):
      return
    elif isinstance(st, ast.Delete):
      for t in st.targets:
        if isinstance(t, ast.Subscript):
          obj = self.eval(t.value, frames, module)
          idx = self.index_key(self.eval(t.slice, frames, module))
          if isinstance(obj, dict):
            if idx not in obj:
              raise PyRaise("KeyError", repr(idx))
            del obj[idx]
          elif isinstance(obj, list):
            del obj[idx]
          else:
            self.err("del on %r" % (obj,), st)
        elif isinstance(t, ast.Name):
          frames[-1].pop(t.id, None)
      return
    else:
      self.err("statement %s" % type(st).__name__, st)

  def assign(self, target, val, frames, module):
    if isinstance(target, ast.Name):
      fr_ = frames[-1]
      if target.id in fr_.get("__globals__", ()):
        self.module_globals(module)[target.id] = val
      elif target.id in fr_.get("__nonlocals__", ()):
        for f in reversed(frames[:-1]):
          if target.id in f:
            f[target.id] = val
            break
      else:
        fr_[target.id] = val
    elif isinstance(target, (ast.Tuple, ast.List)):
      if isinstance(val, Tensor):
        # unpacking an (uninterpreted) tensor-valued result: its components
        vals = [Tensor(("app", "item", (i,), (val.term,)), None)
                for i in range(len(target.elts))]
      else:
        vals = list(self.iterate(val))
      if len(vals) != len(target.elts):
        self.err("unpack arity mismatch", target)
      for t, v in zip(target.elts, vals):
        self.assign(t, v, frames, module)
    elif isinstance(target, ast.Attribute):
      obj = self.eval(target.value, frames, module)
      self.setattr(obj, target.attr, val)
    elif isinstance(target, ast.Subscript):
      obj = self.eval(target.value, frames, module)
      idx = self.eval(target.slice, frames, module)
      if isinstance(obj, (list, dict)):
        obj[self.index_key(idx)] = val
      else:
        self.err("subscript store on %r" % (obj,), target)
    else:
      self.err("assignment target %s" % type(target).__name__, target)

  def index_key(self, idx):
    if isinstance(idx, Fraction) and idx.denominator == 1:
      return int(idx)
    return idx

  # -- attribute access --------------------------------------------------
  def setattr(self, obj, name, val):
    if isinstance(obj, Mock):
      obj.attrs[name] = val
      return
    if isinstance(obj, Obj):
      # property setter?
      owner, fn = obj.cls.find_method(name + ".setter")
      if fn is not None:
        f = Func(fn, owner.module, [], name, obj, owner)
        self.call_func(f, [val], {})
        return
      if self.arm_log is not None and (id(obj), name) not in self.arm_log:
        self.arm_log[(id(obj), name)] = (obj, name,
                                         obj.attrs.get(name, _MISSING))
      obj.attrs[name] = val
      self.stores.append((obj, name, val))
    elif isinstance(obj, ClassRef):
      # `cls.name = value`: an attribute of THAT class (subclasses see it
      # through the MRO, its parents do not)
      self.__dict__.setdefault("_class_attr_set", {})[(id(obj.cls),
                                                        name)] = val
    elif isinstance(obj, Tensor):
      pass
    else:
      self.err("attribute store on %r" % (obj,))

  def getattr(self, obj, name):
    if isinstance(obj, Obj):
      if name in obj.attrs:
        return obj.attrs[name]
      owner, fn = obj.cls.find_method(name)
      if fn is not None:
        f = Func(fn, owner.module, [], owner.name + "." + name, obj, owner)
        if name in owner.properties:
          return self.call_func(f, [], {})
        if name in owner.staticmethods:
          f.self_obj = None
        if name in owner.classmethods:
          f.self_obj = ClassRef(obj.cls)
        return f
      found, val = self.class_attr_assigned(obj.cls, name)
      if found:
        return val
      owner, expr = obj.cls.find_class_attr(name)
      if expr is not None:
        return self.class_attr_value(owner, name, expr)
      if name == "__class__":
        return ClassRef(obj.cls)
      raise PyRaise("AttributeError", "%s has no attribute %s" %
                    (obj.cls.name, name))
    if isinstance(obj, Mock):
      if name in obj.attrs:
        return obj.attrs[name]
      raise PyRaise("AttributeError", "%s has no attribute %s" %
                    (obj.name, name))
    if isinstance(obj, SuperProxy):
      owner, fn = obj.obj.cls.find_method(name, after=obj.after)
      if fn is None:
        # external base (tf.Module, ...) : no-op callable
        if name in ("__init__",):
          # the object under construction, for rules that model the effect
          # of an external base constructor (ext_overrides)
          self.external_super_self = obj.obj
          return Ext("<external-super>.__init__")
        if getattr(self, "opaque_ext", False):
          self.external_super_self = obj.obj
          return Ext("super." + name)
        raise PyRaise("AttributeError", "super() has no attribute %s" % name)
      f = Func(fn, owner.module, [], owner.name + "." + name, obj.obj, owner)
      if name in owner.properties:
        return self.call_func(f, [], {})
      return f
    if isinstance(obj, ClassRef):
      owner, fn = obj.cls.find_method(name)
      if fn is not None:
        f = Func(fn, owner.module, [], owner.name + "." + name, None, owner)
        if name in owner.classmethods:
          f.self_obj = obj
        return f
      found, val = self.class_attr_assigned(obj.cls, name)
      if found:
        return val
      owner, expr = obj.cls.find_class_attr(name)
      if expr is not None:
        return self.class_attr_value(owner, name, expr)
      if name == "__name__":
        return obj.cls.name
      if "<external-super>." + name in (getattr(self, "ext_overrides", None)
                                         or {}):
        # a classmethod inherited from an external base (keras from_config)
        # that the rule models
        self.external_super_self = obj
        return Ext("<external-super>." + name)
      raise PyRaise("AttributeError", "class %s has no attribute %s" %
                    (obj.cls.name, name))
    if isinstance(obj, ModuleRef):
      return self.lookup_global(name, obj.module)
    if isinstance(obj, Ext):
      return Ext(canon_external(obj.name + "." + name))
    if isinstance(obj, Tensor):
      if name == "shape":
        return ShapeV(obj.shape if obj.shape is not None else ())
      if name == "dtype":
        return Ext("tf.float32")
      return BoundPrim(obj, name)
    if isinstance(obj, ShapeV):
      if name == "rank" or name == "ndims":
        return len(obj.dims)
      return BoundPrim(obj, name)
    if isinstance(obj, NDArr):
      if name == "shape":
        return obj.shape
      if name == "ndim":
        return len(obj.shape)
      return BoundPrim(obj, name)
    if isinstance(obj, NArr) and name in ("shape", "ndim"):
      return (len(obj),) if name == "shape" else 1
    if isinstance(obj, (list, dict, str, tuple)) and name != "__class__":
      return BoundPrim(obj, name)
    if hasattr(obj, "gram_op") or hasattr(obj, "gram_method"):
      return BoundPrim(obj, name)
    if isinstance(obj, Func) and name == "__name__":
      return obj.name.split(".")[-1]
    if isinstance(obj, (int, Fraction)):
      if name == "numpy":
        return BoundPrim(obj, name)
    if name == "__class__" and (obj is None or isinstance(
        obj, (bool, int, Fraction, float, str, list, tuple, dict))):
      tn = "NoneType" if obj is None else (
          "float" if isinstance(obj, Fraction) else type(obj).__name__)
      return Mock("class", {"__name__": tn})
    if obj is None:
      raise PyRaise("AttributeError", "None has no attribute %s" % name)
    self.err("attribute %s of %r" % (name, obj))

  # -- expressions -------------------------------------------------------
  def lookup(self, name, frames, module):
    for f in reversed(frames):
      if name in f:
        return f[name]
      if name in f.get("__localnames__", ()) and name not in \
          f.get("__globals__", ()):
        raise PyRaise("UnboundLocalError",
                      "local variable %r referenced before assignment" % name)
    return self.lookup_global(name, module)

  def eval(self, node, frames, module):
    m = getattr(self, "eval_" + type(node).__name__, None)
    if m is None:
      self.err("expression %s" % type(node).__name__, node)
    prev = self.cur_node
    if hasattr(node, "lineno"):
      self.cur_node = node
    self.cur_module = module
    try:
      return m(node, frames, module)
    finally:
      self.cur_node = prev
      self.cur_module = module

  def eval_Constant(self, node, frames, module):
    v = node.value
    if isinstance(v, float):
      return mkfloat(v)
    if isinstance(v, (bool, int, str)) or v is None:
      return v
    if isinstance(v, bytes):
      return v.decode("latin1")
    if v is Ellipsis:
      return Opaque("...")
    self.err("constant %r" % (v,), node)

  def eval_Name(self, node, frames, module):
    return self.lookup(node.id, frames, module)

  def eval_Attribute(self, node, frames, module):
    # dotted external names resolve in one go (tf.keras.backend.clip)
    base = self.eval(node.value, frames, module)
    return self.getattr(base, node.attr)

  def eval_JoinedStr(self, node, frames, module):
    return "<fstring>"

  def eval_List(self, node, frames, module):
    out = []
    for e in node.elts:
      if isinstance(e, ast.Starred):
        out.extend(self.iterate(self.eval(e.value, frames, module)))
      else:
        out.append(self.eval(e, frames, module))
    return out

  def eval_Tuple(self, node, frames, module):
    return tuple(self.eval_List(node, frames, module))

  def eval_Dict(self, node, frames, module):
    d = {}
    for k, v in zip(node.keys, node.values):
      if k is None:
        d.update(self.eval(v, frames, module))
      else:
        d[self.eval(k, frames, module)] = self.eval(v, frames, module)
    return d

  def eval_Set(self, node, frames, module):
    return list(self.eval(e, frames, module) for e in node.elts)

  def eval_IfExp(self, node, frames, module):
    c = self.truth(self.eval(node.test, frames, module), node.test)
    return self.eval(node.body if c else node.orelse, frames, module)

  def eval_Lambda(self, node, frames, module):
    return self._bind_defaults(Func(node, module, list(frames), "<lambda>"),
                               frames, module)

  def eval_ListComp(self, node, frames, module):
    out = []
    self._comp(node.generators, 0, frames + [{}], module,
               lambda fr_: out.append(self.eval(node.elt, fr_, module)))
    return out

  eval_GeneratorExp = eval_ListComp

  def eval_DictComp(self, node, frames, module):
    out = {}
    def add(fr_):
      out[self.eval(node.key, fr_, module)] = self.eval(node.value, fr_,
                                                        module)
    self._comp(node.generators, 0, frames + [{}], module, add)
    return out

  def _comp(self, gens, i, frames, module, emit):
    if i == len(gens):
      emit(frames)
      return
    g = gens[i]
    for v in self.iterate(self.eval(g.iter, frames, module)):
      self.assign(g.target, v, frames, module)
      if all(self.truth(self.eval(c, frames, module), c) for c in g.ifs):
        self._comp(gens, i + 1, frames, module, emit)

  def eval_Subscript(self, node, frames, module):
    obj = self.eval(node.value, frames, module)
    if isinstance(node.slice, ast.Tuple) and any(
        isinstance(e, ast.Slice) for e in node.slice.elts):
      if isinstance(obj, Tensor):
        return Tensor(self.note_loc(("app", "slice",
                                     (ast.unparse(node.slice),),
                                     (obj.term,))), None)
      self.err("multi-dimensional slice of %r" % (obj,), node)
    if isinstance(node.slice, ast.Slice):
      lo = self.eval(node.slice.lower, frames, module) \
          if node.slice.lower else None
      hi = self.eval(node.slice.upper, frames, module) \
          if node.slice.upper else None
      st = self.eval(node.slice.step, frames, module) \
          if node.slice.step else None
      sl = slice(*(self.index_key(v) if v is not None else None
                   for v in (lo, hi, st)))
      if isinstance(obj, ShapeV):
        return ShapeV(obj.dims[sl])
      if isinstance(obj, (list, tuple, str)):
        return obj[sl]
      if isinstance(obj, Tensor):
        return Tensor(("app", "slice", (), (obj.term,)), None)
      self.err("slice of %r" % (obj,), node)
    if isinstance(obj, NDArr):
      # numpy indexing of a concrete array: integers, `...` and `:`
      key = self.eval(node.slice, frames, module)
      key = list(key) if isinstance(key, tuple) else [key]
      key = [Ellipsis if isinstance(k, Opaque) and k.desc == "..." else k
             for k in key]
      if any(not (k is Ellipsis or isinstance(k, (int, Fraction)))
             for k in key) or sum(1 for k in key if k is Ellipsis) > 1:
        self.err("index %r of %r" % (key, obj), node)
      rank = len(obj.shape)
      if Ellipsis in key:
        i = key.index(Ellipsis)
        key = key[:i] + [None] * (rank - len(key) + 1) + key[i + 1:]
      key = key + [None] * (rank - len(key))

      def pick(v, ks):
        if not ks:
          return v
        if ks[0] is None:
          return [pick(e, ks[1:]) for e in v]
        try:
          return pick(v[int(ks[0])], ks[1:])
        except IndexError:
          raise PyRaise("IndexError", "index out of range")
      r = pick(obj.nested, key)
      if not isinstance(r, list):
        return r
      if r and isinstance(r[0], list):
        return NDArr(r)
      return NArr(r)
    idx = self.index_key(self.eval(node.slice, frames, module))
    if isinstance(obj, NArr) and isinstance(idx, list) and \
        len(idx) == len(obj) and all(isinstance(b, bool) for b in idx):
      # numpy boolean-mask selection
      return NArr([v for v, b in zip(obj, idx) if b])
    if isinstance(obj, ShapeV):
      return obj.dims[idx]
    if isinstance(obj, (list, tuple, str)):
      try:
        return obj[idx]
      except IndexError:
        raise PyRaise("IndexError", "index out of range")
      except TypeError:
        self.err("index %r of %r" % (idx, obj), node)
    if isinstance(obj, dict):
      if idx not in obj:
        if isinstance(obj, DefaultDict) and obj.default_factory is not None:
          return obj[idx]
        raise PyRaise("KeyError", repr(idx))
      return obj[idx]
    if isinstance(obj, Tensor):
      if obj.term[0] == "c":
        # every element of a uniform constant tensor is that constant
        return Tensor(obj.term, None)
      return Tensor(("app", "index", (), (obj.term,)), None)
    if isinstance(obj, Mock) and "__getitem__" in obj.attrs:
      return obj.attrs["__getitem__"](self, [idx], {})
    self.err("subscript of %r" % (obj,), node)

  def eval_UnaryOp(self, node, frames, module):
    v = self.eval(node.operand, frames, module)
    if isinstance(node.op, ast.Not):
      return not self.truth(v, node)
    if isinstance(node.op, ast.USub):
      if isinstance(v, Tensor):
        return Tensor(self.note_loc(("neg", v.term)), v.shape)
      if isinstance(v, FloatTag):
        return mkfloat(-v)
      if isinstance(v, NArr):
        return NArr(mkfloat(-e) if isinstance(e, FloatTag) else -e
                    for e in v)
      return -v
    if isinstance(node.op, ast.UAdd):
      return v
    self.err("unary op", node)

  def eval_BoolOp(self, node, frames, module):
    if isinstance(node.op, ast.And):
      v = True
      for e in node.values:
        v = self.eval(e, frames, module)
        if isinstance(v, Tensor) and v.term[0] != "c":
          if self.fork is None:
            self.err("tensor in python boolean context", e)
          if not self.truth(v, e):
            return False
          v = True
          continue
        if not self.truth(v, e):
          return v
      return v
    v = False
    for e in node.values:
      v = self.eval(e, frames, module)
      if isinstance(v, Tensor) and v.term[0] != "c":
        if self.fork is None:
          self.err("tensor in python boolean context", e)
        if self.truth(v, e):
          return True
        v = False
        continue
      if self.truth(v, e):
        return v
    return v

  def eval_BinOp(self, node, frames, module):
    a = self.eval(node.left, frames, module)
    b = self.eval(node.right, frames, module)
    return self.binop(node.op, a, b)

  def eval_Compare(self, node, frames, module):
    left = self.eval(node.left, frames, module)
    result = True
    for op, rn in zip(node.ops, node.comparators):
      right = self.eval(rn, frames, module)
      r = self.compare(op, left, right, node)
      if isinstance(r, (Tensor, list, NDArr)):
        if len(node.ops) != 1:
          self.err("chained tensor comparison", node)
        return r
      if not r:
        return False
      left = right
    return result

  def compare(self, op, a, b, node=None):
    if isinstance(a, NDArr) and (is_num(b) or isinstance(b, bool)) and \
        isinstance(op, (ast.Lt, ast.LtE, ast.Gt, ast.GtE, ast.Eq, ast.NotEq)):
      return NDArr.from_flat([self.compare(op, x, b, node)
                              for x in a.flat()], a.shape)
    if (isinstance(a, NArr) or isinstance(b, NArr)) and isinstance(
        op, (ast.Lt, ast.LtE, ast.Gt, ast.GtE, ast.Eq, ast.NotEq)):
      if isinstance(a, NArr) and isinstance(b, NArr) and len(a) == len(b):
        return NArr(self.compare(op, x, y, node) for x, y in zip(a, b))
      if isinstance(a, NArr) and (is_num(b) or isinstance(b, bool)):
        return NArr(self.compare(op, x, b, node) for x in a)
      if isinstance(b, NArr) and (is_num(a) or isinstance(a, bool)):
        return NArr(self.compare(op, a, y, node) for y in b)
    if isinstance(a, list) and not isinstance(b, (list, tuple, str)) and \
        b is not None and any(isinstance(e, Tensor) for e in a) and \
        isinstance(op, (ast.Lt, ast.LtE, ast.Gt, ast.GtE)):
      # numpy-style broadcast of an array of symbolic entries
      return [self.compare(op, e, b, node) for e in a]
    if isinstance(a, Tensor) or isinstance(b, Tensor):
      if isinstance(op, (ast.Is, ast.IsNot)):
        return isinstance(op, ast.IsNot) if (a is None or b is None) else \
            (a is b) == isinstance(op, ast.Is)
      if isinstance(op, (ast.In, ast.NotIn)):
        self.err("tensor in membership test", node)
      if a is None or b is None or isinstance(a, str) or isinstance(b, str):
        # python-level comparison of a tensor with None / a string
        return isinstance(op, ast.NotEq)
      ta, tb = self.as_term(a), self.as_term(b)
      name = {ast.Lt: "lt", ast.LtE: "le", ast.Gt: "gt", ast.GtE: "ge",
              ast.Eq: "eq", ast.NotEq: "ne"}.get(type(op))
      if name is None:
        self.err("tensor comparison op", node)
      sh = a.shape if isinstance(a, Tensor) else b.shape
      return Tensor(self.note_loc(("cmp", name, ta, tb)), sh)
    if isinstance(op, ast.Is):
      return a is b or (a is None and b is None) or (
          isinstance(a, bool) and isinstance(b, bool) and a == b)
    if isinstance(op, ast.IsNot):
      return not self.compare(ast.Is(), a, b, node)
    if isinstance(op, ast.In):
      if isinstance(b, BoundPrim):
        self.err("membership in method", node)
      if b is None:
        raise PyRaise("TypeError", "argument of type NoneType is not iterable")
      if isinstance(b, str) and not isinstance(a, str):
        raise PyRaise("TypeError", "in <string> requires string")
      if isinstance(b, dict):
        return a in b
      return any(self.py_eq(a, e) for e in b) if not isinstance(b, str) \
          else a in b
    if isinstance(op, ast.NotIn):
      return not self.compare(ast.In(), a, b, node)
    if isinstance(op, ast.Eq):
      return self.py_eq(a, b)
    if isinstance(op, ast.NotEq):
      return not self.py_eq(a, b)
    if isinstance(a, tuple) and isinstance(b, tuple) and isinstance(
        op, (ast.Lt, ast.LtE, ast.Gt, ast.GtE)):
      # lexicographic order: the first position where the tuples differ
      # decides (symbolic positions are decided through the path fork)
      strict = ast.Lt() if isinstance(op, (ast.Lt, ast.LtE)) else ast.Gt()
      for x, y in zip(a, b):
        if self.truth(self.compare(ast.Eq(), x, y, node) if not (
            isinstance(x, Tensor) or isinstance(y, Tensor)) else
                      self.compare(ast.Eq(), x, y, node), node):
          continue
        return self.truth(self.compare(strict, x, y, node), node)
      if len(a) != len(b):
        return self.compare(op, len(a), len(b), node)
      return isinstance(op, (ast.LtE, ast.GtE))
    if not (is_num(a) and is_num(b)):
      if isinstance(a, str) and isinstance(b, str):
        pass
      else:
        if a is None or b is None:
          raise PyRaise("TypeError", "ordering comparison with None")
        if isinstance(a, (str, list, dict)) or isinstance(b, (str, list,
                                                             dict)):
          raise PyRaise("TypeError", "ordering comparison of %s and %s" %
                        (type(a).__name__, type(b).__name__))
        self.err("ordering comparison of %r and %r" % (a, b), node)
    if isinstance(op, ast.Lt):
      return a < b
    if isinstance(op, ast.LtE):
      return a <= b
    if isinstance(op, ast.Gt):
      return a > b
    if isinstance(op, ast.GtE):
      return a >= b
    self.err("comparison op", node)

  def py_eq(self, a, b):
    if isinstance(a, ClassRef) and isinstance(b, ClassRef):
      return a.cls is b.cls
    if isinstance(a, (Obj, Func, ClassRef, Opaque)) or \
        isinstance(b, (Obj, Func, ClassRef, Opaque)):
      return a is b
    if isinstance(a, str) != isinstance(b, str):
      return False
    if (a is None) != (b is None):
      return False
    try:
      return a == b
    except Exception:  # pylint: disable=broad-except
      return False

  def truth(self, v, node=None):
    if isinstance(v, Tensor):
      if v.term[0] == "c":
        return v.term[1] != 0
      if self.fork is not None:
        return self.fork.decide(v.term)
      self.err("tensor used as python condition", node)
    if isinstance(v, (Obj, Func, ClassRef, Ext, Mock)):
      return True
    if isinstance(v, Opaque):
      if v.desc == "match":
        return True
      self.err("opaque value %s used as python condition" % v.desc, node)
    if isinstance(v, ShapeV):
      return bool(v.dims)
    return bool(v)

  def as_term(self, v):
    if isinstance(v, Tensor):
      return v.term
    if isinstance(v, bool):
      return C(int(v))
    if isinstance(v, (int, Fraction)):
      return C(v)
    if isinstance(v, NArr):
      # a concrete per-channel constant vector
      return ("app", "const_array", (tuple(fr(e) for e in v),), ())
    if isinstance(v, (list, tuple)):
      # small constant vectors are treated element-wise identical only when
      # uniform
      vals = [self.as_term(e) for e in v]
      if vals and all(t == vals[0] for t in vals):
        return vals[0]
      return ("app", "vector", (), tuple(vals))
    if isinstance(v, str) or v is None or isinstance(v, dict):
      raise PyRaise("TypeError", "%s used in tensor arithmetic" %
                    type(v).__name__)
    self.err("cannot use %r as a tensor operand" % (v,))

  def binop(self, op, a, b):
    if hasattr(a, "gram_op") or hasattr(b, "gram_op"):
      from . import gram
      return gram.binop(self, op, a, b)
    if isinstance(a, NDArr) or isinstance(b, NDArr):
      # element-wise on equal shapes or with a scalar
      if isinstance(a, NDArr) and isinstance(b, NDArr):
        if a.shape != b.shape:
          self.err("broadcast of arrays %r and %r" % (a, b))
        return NDArr.from_flat([self.binop(op, x, y) for x, y in
                                zip(a.flat(), b.flat())], a.shape)
      if isinstance(a, NDArr) and (is_num(b) or isinstance(b, (bool,
                                                               Tensor))):
        return NDArr.from_flat([self.binop(op, x, b) for x in a.flat()],
                               a.shape)
      if isinstance(b, NDArr) and (is_num(a) or isinstance(a, (bool,
                                                               Tensor))):
        return NDArr.from_flat([self.binop(op, a, y) for y in b.flat()],
                               b.shape)
      self.err("arithmetic on %r and %r" % (a, b))
    for u, v, left in ((a, b, True), (b, a, False)):
      if isinstance(u, NArr) and isinstance(v, Tensor) and any(
          isinstance(e, Tensor) for e in u):
        # an array of symbolic scalars with a symbolic scalar
        return NArr((self.binop(op, e, v) if left else self.binop(op, v, e))
                    for e in u)
    if isinstance(a, Tensor) or isinstance(b, Tensor):
      ta, tb = self.as_term(a), self.as_term(b)
      sh = a.shape if isinstance(a, Tensor) and a.shape is not None else (
          b.shape if isinstance(b, Tensor) else None)
      if isinstance(op, ast.Add):
        t = ("add", ta, tb)
      elif isinstance(op, ast.Sub):
        t = ("add", ta, ("neg", tb))
      elif isinstance(op, ast.Mult):
        t = ("mul", ta, tb)
      elif isinstance(op, ast.Div):
        t = ("div", ta, tb)
      elif isinstance(op, ast.Pow):
        if ta[0] == "c" and ta[1] == 2:
          t = ("app", "pow2", (), (tb,))
        elif tb[0] == "c" and tb[1].denominator == 1 and 0 <= tb[1] <= 4:
          t = C(1)
          for _ in range(int(tb[1])):
            t = ("mul", t, ta)
        else:
          t = ("app", "pow", (), (ta, tb))
      elif isinstance(op, ast.Mod):
        t = ("app", "mod", (), (ta, tb))
      elif isinstance(op, ast.FloorDiv):
        t = ("app", "floor", (), (("div", ta, tb),))
      else:
        self.err("tensor binary op %s" % type(op).__name__)
      return Tensor(self.note_loc(t), sh)
    if isinstance(a, NArr) or isinstance(b, NArr):
      if isinstance(a, NArr) and isinstance(b, NArr):
        if len(a) != len(b):
          if len(a) == 1:
            a = NArr(list(a) * len(b))
          elif len(b) == 1:
            b = NArr(list(b) * len(a))
          else:
            raise PyRaise("ValueError", "operands could not be broadcast")
        return NArr(self.binop(op, x, y) for x, y in zip(a, b))
      if isinstance(a, NArr) and (is_num(b) or isinstance(b, bool)):
        return NArr(self.binop(op, x, b) for x in a)
      if isinstance(b, NArr) and (is_num(a) or isinstance(a, bool)):
        return NArr(self.binop(op, a, y) for y in b)
    # python values
    if isinstance(a, list) and isinstance(b, list) and isinstance(
        op, (ast.BitOr, ast.BitAnd)):
      # sets are modelled as duplicate-free lists
      if isinstance(op, ast.BitOr):
        return list(a) + [e for e in b if e not in a]
      return [e for e in a if e in b]
    if isinstance(op, ast.Add):
      if isinstance(a, str) and isinstance(b, str):
        return a + b
      if isinstance(a, str) or isinstance(b, str):
        # json.dumps(...) is modelled by a stand-in object; its text is only
        # ever concatenated into log messages
        js = lambda v: isinstance(v, Mock) and v.name == "json"
        if js(a) or js(b):
          return ("<json>" if js(a) else a) + ("<json>" if js(b) else b)
        raise PyRaise("TypeError", "str + non-str")
      if isinstance(a, list) and isinstance(b, list):
        return a + b
      if isinstance(a, tuple) and isinstance(b, tuple):
        return a + b
      return self._num(a, b, lambda p, q: p + q)
    if isinstance(op, ast.Sub):
      return self._num(a, b, lambda p, q: p - q)
    if isinstance(op, ast.Mult):
      if isinstance(a, (list, str, tuple)) and isinstance(b, int):
        return a * b
      if isinstance(b, (list, str, tuple)) and isinstance(a, int):
        return b * a
      return self._num(a, b, lambda p, q: p * q)
    if isinstance(op, ast.Div):
      self._need_num(a, b)
      if fr(b) == 0:
        raise PyRaise("ZeroDivisionError", "division by zero")
      return mkfloat(fr(a) / fr(b))
    if isinstance(op, ast.FloorDiv):
      self._need_num(a, b)
      if fr(b) == 0:
        raise PyRaise("ZeroDivisionError", "division by zero")
      r = fr(a) // fr(b)
      if is_floaty(a) or is_floaty(b):
        return mkfloat(r)
      return int(r)
    if isinstance(op, ast.Mod):
      if isinstance(a, str):
        return "<formatted>"
      self._need_num(a, b)
      if fr(b) == 0:
        raise PyRaise("ZeroDivisionError", "modulo by zero")
      r = fr(a) % fr(b)
      if is_floaty(a) or is_floaty(b):
        return mkfloat(r)
      return int(r) if r.denominator == 1 else r
    if isinstance(op, ast.Pow):
      self._need_num(a, b)
      return self.py_pow(a, b)
    if isinstance(op, (ast.BitAnd, ast.BitOr, ast.BitXor)) and \
        isinstance(a, (bool, int)) and isinstance(b, (bool, int)):
      if isinstance(a, bool) and isinstance(b, bool):
        return {ast.BitAnd: a and b, ast.BitOr: a or b,
                ast.BitXor: a != b}[type(op)]
      ia, ib = int(a), int(b)
      return {ast.BitAnd: ia & ib, ast.BitOr: ia | ib,
              ast.BitXor: ia ^ ib}[type(op)]
    self.err("python binary op %s on %r, %r" % (type(op).__name__, a, b))

  def _need_num(self, a, b):
    if not (is_num(a) and is_num(b)):
      if a is None or b is None or isinstance(a, str) or isinstance(b, str):
        raise PyRaise("TypeError", "arithmetic on %r and %r" % (a, b))
      self.err("arithmetic on %r and %r" % (a, b))

  def _num(self, a, b, f):
    self._need_num(a, b)
    r = f(fr(a), fr(b))
    if is_floaty(a) or is_floaty(b):
      return mkfloat(r)
    if r.denominator == 1 and not isinstance(a, Fraction) and \
        not isinstance(b, Fraction):
      return int(r)
    return r

  def py_pow(self, a, b):
    fa, fb = fr(a), fr(b)
    floaty = is_floaty(a) or is_floaty(b)
    if fb.denominator != 1:
      # fractional exponent: only exact roots of powers of two are expected
      v = float(fa) ** float(fb)
      return mkfloat(Fraction(v))
    n = int(fb)
    if fa == 0 and n < 0:
      raise PyRaise("ZeroDivisionError", "0 ** negative")
    if abs(n) > 4096:
      self.err("exponent too large: %d" % n)
    r = fa ** n
    if floaty or n < 0:
      return mkfloat(r)
    return int(r) if r.denominator == 1 else r

  def iterate(self, v):
    if isinstance(v, (list, tuple)):
      return list(v)
    if isinstance(v, dict):
      return list(v.keys())
    if isinstance(v, ShapeV):
      return list(v.dims)
    if isinstance(v, str):
      return list(v)
    if v is None:
      raise PyRaise("TypeError", "NoneType is not iterable")
    self.err("cannot iterate over %r" % (v,))

  # -- calls -------------------------------------------------------------
  def eval_Call(self, node, frames, module):
    # super() special form
    if isinstance(node.func, ast.Name) and node.func.id == "super":
      return self.make_super(node, frames, module)
    fn = self.eval(node.func, frames, module)
    args = []
    for a in node.args:
      if isinstance(a, ast.Starred):
        args.extend(self.iterate(self.eval(a.value, frames, module)))
      else:
        args.append(self.eval(a, frames, module))
    kwargs = {}
    for k in node.keywords:
      if k.arg is None:
        kwargs.update(self.eval(k.value, frames, module))
      else:
        kwargs[k.arg] = self.eval(k.value, frames, module)
    self.cur_node = node
    self.cur_module = module
    return self.call(fn, args, kwargs, node)

  def make_super(self, node, frames, module):
    self_obj = None
    owner = None
    for f in reversed(frames):
      if "__owner__" in f:
        owner = f["__owner__"]
        self_obj = f.get("__self__")
        break
    if node.args:
      c = self.eval(node.args[0], frames, module)
      if isinstance(c, ClassRef):
        owner = c.cls
      if len(node.args) > 1:
        self_obj = self.eval(node.args[1], frames, module)
    if owner is None or not isinstance(self_obj, Obj):
      self.err("super() outside a method", node)
    return SuperProxy(self_obj, owner)

  def call(self, fn, args, kwargs, node=None):
    if isinstance(fn, Func):
      return self.call_func(fn, args, kwargs)
    if isinstance(fn, ClassRef):
      return self.instantiate(fn.cls, args, kwargs)
    if isinstance(fn, Ext):
      self.trace_calls.append((fn.name, self.cur_module.loc(node)
                               if node is not None and self.cur_module
                               else "?"))
      return self.call_ext(fn.name, args, kwargs, node)
    if isinstance(fn, BoundPrim):
      if hasattr(fn.recv, "gram_op") or hasattr(fn.recv, "gram_method"):
        from . import gram
        return gram.method(self, fn.recv, fn.name, args, kwargs)
      return self.call_bound(fn, args, kwargs, node)
    if callable(fn) and not isinstance(fn, (Func, ClassRef, Ext, BoundPrim,
                                            Obj, Mock)):
      return fn(self, args, kwargs)
    if isinstance(fn, Mock) and "__call__" in fn.attrs:
      # (a stand-in may ask which object was called)
      self.__dict__["_current_callee"] = fn
      return fn.attrs["__call__"](self, args, kwargs)
    if isinstance(fn, Obj):
      owner, f = fn.cls.find_method("__call__")
      if f is None:
        self.err("object of %s is not callable" % fn.cls.name, node)
      return self.call_func(Func(f, owner.module, [], owner.name + ".__call__",
                                 fn, owner), args, kwargs)
    if fn is None:
      raise PyRaise("TypeError", "NoneType is not callable")
    self.err("call of %r" % (fn,), node)

  def instantiate(self, cls, args, kwargs):
    obj = Obj(cls)
    owner, fn = cls.find_method("__init__")
    if fn is not None:
      self.call_func(Func(fn, owner.module, [], owner.name + ".__init__", obj,
                          owner), args, kwargs)
    return obj

  def call_func(self, f, args, kwargs):
    """functools.lru_cache / functools.cache are modelled: a call with the
    same (hashable, concrete) arguments returns the SAME object again, for
    the lifetime of this interpreter."""
    decos = getattr(f.node, "decorator_list", None) or []
    if any("lru_cache" in ast.unparse(d) or ast.unparse(d).split("(")[0] in (
        "cache", "functools.cache") for d in decos):
      def hashable(v):
        if isinstance(v, (str, bool, int, Fraction, type(None))):
          return True
        return isinstance(v, tuple) and all(hashable(e) for e in v)
      if all(hashable(v) for v in list(args) + list(kwargs.values())):
        memo = self.__dict__.setdefault("_lru_memo", {})
        key = (id(f.node), tuple(args), tuple(sorted(kwargs.items())))
        if key not in memo:
          memo[key] = self._call_func(f, args, kwargs)
        return memo[key]
    return self._call_func(f, args, kwargs)

  def _call_func(self, f, args, kwargs):
    self.depth += 1
    if self.depth > self.MAX_DEPTH:
      self.depth -= 1
      self.err("call depth exceeds %d (recursion?) in %s" %
               (self.MAX_DEPTH, f.name))
    saved = (self.cur_module, self.cur_node)
    if COVERAGE is not None:
      try:
        COVERAGE.add((f.module.relpath, getattr(f.node, "name", "<lambda>"),
                      f.node.lineno))
      except AttributeError:
        pass
    try:
      node = f.node
      a = node.args
      local = {}
      params = [p.arg for p in list(a.posonlyargs) + list(a.args)]
      defaults = list(a.defaults)
      args = list(args)
      if f.self_obj is not None:
        args = [f.self_obj] + args
      if f.owner is not None:
        local["__owner__"] = f.owner
        if args:
          local["__self__"] = args[0]
      ndef = len(defaults)
      for i, p in enumerate(params):
        if i < len(args):
          local[p] = args[i]
          if p in kwargs:
            raise PyRaise("TypeError", "multiple values for %s" % p)
        elif p in kwargs:
          local[p] = kwargs.pop(p)
        else:
          di = i - (len(params) - ndef)
          if di >= 0 and f.defaults is not None and di in f.defaults:
            local[p] = f.defaults[di]
          elif di >= 0:
            cached = self.__dict__.setdefault("_def_defaults", {})
            if (id(node), di) in cached:
              local[p] = cached[(id(node), di)]
            else:
              local[p] = self.eval(defaults[di], list(f.closure), f.module)
              if f.owner is not None and isinstance(
                  defaults[di], (ast.Dict, ast.List, ast.Set)):
                # a method's default is evaluated once, when the class body
                # runs: a mutable default is one object shared by all calls
                cached[(id(node), di)] = local[p]
          else:
            raise PyRaise("TypeError", "%s() missing argument %s" %
                          (f.name, p))
      for p in params:
        kwargs.pop(p, None) if p in local and p in kwargs else None
      extra = args[len(params):]
      if a.vararg is not None:
        local[a.vararg.arg] = tuple(extra)
      elif extra:
        raise PyRaise("TypeError", "%s() takes %d positional arguments but "
                      "%d were given" % (f.name, len(params), len(args)))
      for p, d in zip(a.kwonlyargs, a.kw_defaults):
        if p.arg in kwargs:
          local[p.arg] = kwargs.pop(p.arg)
        elif d is not None:
          local[p.arg] = self.eval(d, list(f.closure), f.module)
        else:
          raise PyRaise("TypeError", "missing kw-only argument %s" % p.arg)
      if a.kwarg is not None:
        local[a.kwarg.arg] = dict(kwargs)
      elif kwargs:
        raise PyRaise("TypeError", "%s() got an unexpected keyword argument "
                      "%s" % (f.name, sorted(kwargs)[0]))
      local["__localnames__"] = local_names(node)
      frames = list(f.closure) + [local]
      if isinstance(node, ast.Lambda):
        return self.eval(node.body, frames, f.module)
      try:
        self.exec_block(node.body, frames, f.module)
      except _Return as r:
        return r.value
      return None
    finally:
      self.depth -= 1
      self.cur_module, self.cur_node = saved

  # -- bound methods of primitive values ---------------------------------
  def call_bound(self, bp, args, kwargs, node):
    r, n = bp.recv, bp.name
    if isinstance(r, Tensor):
      if n == "set_shape":
        return None
      if n in ("numpy", "eval", "read_value", "value", "tolist", "copy",
               "astype", "item"):
        return r
      if n in ("assign", "assign_add", "assign_sub"):
        if isinstance(r, Var) and args:
          new = self.as_term(args[0])
          if n == "assign_add":
            new = ("add", r.content(), new)
          elif n == "assign_sub":
            new = ("add", r.content(), ("neg", new))
          r.term = ("app", "variable", (), (new,))
        return None
      if n == "as_list":
        return list(r.shape or ())
      if n == "get_shape":
        return ShapeV(r.shape or ())
      self.err("tensor method %s" % n, node)
    if isinstance(r, ShapeV):
      if n == "as_list":
        return list(r.dims)
      self.err("shape method %s" % n, node)
    if isinstance(r, (int, Fraction)) and n == "numpy":
      return r
    if isinstance(r, NDArr):
      if n == "tolist":
        import copy as _c
        return _c.deepcopy(r.nested)
      if n in ("copy", "astype", "numpy"):
        return r
      if n == "reshape":
        shp = args[0] if len(args) == 1 and isinstance(
            args[0], (list, tuple)) else args
        return NDArr.from_flat(r.flat(), shp)
    if isinstance(r, NArr) and n in ("tolist", "astype", "numpy"):
      return list(r) if n == "tolist" else r
    if isinstance(r, NArr) and n in ("max", "min", "sum") and not args \
        and not kwargs and r and all(
            isinstance(e, (int, Fraction)) and not isinstance(e, bool)
            for e in r):
      return {"max": max, "min": min, "sum": sum}[n](list(r))
    if isinstance(r, list):
      if n == "append":
        r.append(args[0])
        return None
      if n == "extend":
        r.extend(self.iterate(args[0]))
        return None
      # sets are modelled by lists without duplicates
      if n == "add":
        if not any(x is args[0] or (type(x) is type(args[0]) and
                                    isinstance(x, (str, int, Fraction, tuple))
                                    and x == args[0]) for x in r):
          r.append(args[0])
        return None
      if n == "discard":
        for i, x in enumerate(r):
          if x is args[0] or (isinstance(x, (str, int, Fraction, tuple)) and
                              type(x) is type(args[0]) and x == args[0]):
            del r[i]
            break
        return None
      if n == "update":
        for e in self.iterate(args[0]):
          self.call_method_of(r, "add", [e]) if hasattr(
              self, "call_method_of") else (
                  r.append(e) if e not in r else None)
        return None
      if n == "copy":
        return list(r)
      if n == "insert":
        r.insert(self.index_key(args[0]), args[1])
        return None
      if n == "pop":
        return r.pop(*[self.index_key(a) for a in args])
      if n == "index":
        return r.index(args[0])
    if isinstance(r, dict):
      if n == "get":
        k = args[0]
        d = args[1] if len(args) > 1 else kwargs.get("default")
        return r.get(k, d)
      if n == "items":
        return [(k, v) for k, v in r.items()]
      if n == "keys":
        return list(r.keys())
      if n == "values":
        return list(r.values())
      if n == "update":
        r.update(args[0])
        return None
      if n == "copy":
        return dict(r)
      if n == "pop":
        return r.pop(*args)
      if n == "setdefault":
        return r.setdefault(*args)
    if isinstance(r, str):
      if n == "join":
        return r.join(str(s) for s in self.iterate(args[0]))
      if n == "format":
        # "{0:.2f}".format(x): a number rendered with a fixed number of
        # decimals; float() of it gives the number back (the rounding to
        # that many decimals is not modelled)
        import re as _re
        if len(args) == 1 and not kwargs and _re.fullmatch(
            r"\{0?(:\.\d+f)?\}", r) and (
                isinstance(args[0], Tensor) or is_num(args[0])):
          return FormattedNumber(args[0])
        return "<formatted>"
      if n in ("startswith", "endswith", "split", "replace", "lower",
               "upper", "strip", "find", "rfind", "count", "isdigit",
               "lstrip", "rstrip", "index"):
        return getattr(r, n)(*args)
    self.err("method %s of %r" % (n, r), node)

  # -- external primitives -----------------------------------------------
  def call_ext(self, name, args, kwargs, node):
    ov = getattr(self, "ext_overrides", None)
    if ov and name in ov:
      return ov[name](self, args, kwargs)
    if ov:
      # "*.suffix" entries match any external callable with that last name
      suf = "*." + name.rsplit(".", 1)[-1]
      if suf in ov:
        return ov[suf](self, args, kwargs)
    from . import prims
    return prims.call(self, name, args, kwargs, node)


class Fork(object):
  """Replays a vector of decisions for symbolic python conditions and
  records the path condition; `explore` enumerates all paths."""

  def __init__(self, replay):
    self.replay = list(replay)
    self.path = []       # (term, taken)
    self.pos = 0

  def decide(self, term):
    # the same condition met twice on one path keeps its first outcome
    for t, taken in self.path:
      if t == term:
        return taken
    if self.pos < len(self.replay):
      taken = self.replay[self.pos]
    else:
      taken = True
    self.pos += 1
    self.path.append((term, taken))
    return taken


def explore(run, max_paths=256):
  """run(fork) -> result ; returns list of (path, result_or_exception)."""
  out = []
  stack = [[]]
  while stack:
    replay = stack.pop()
    fork = Fork(replay)
    try:
      res = run(fork)
    except (PyRaise, ConfigRejected) as e:
      res = e
    out.append((list(fork.path), res))
    if len(out) > max_paths:
      raise Unsupported("unsupported-construct more than %d paths" %
                        max_paths)
    # schedule the alternatives of every decision taken by default
    for i in range(len(replay), len(fork.path)):
      alt = [t for _, t in fork.path[:i]] + [not fork.path[i][1]]
      stack.append(alt)
  return out


class ModuleRef(object):
  def __init__(self, module):
    self.module = module


_LOCALS_CACHE = {}


def local_names(fn):
  """Names bound by assignment in the function's own scope."""
  r = _LOCALS_CACHE.get(id(fn))
  if r is not None:
    return r[1]
  names = set()

  def visit(n):
    for ch in ast.iter_child_nodes(n):
      if isinstance(ch, (ast.FunctionDef, ast.AsyncFunctionDef)):
        names.add(ch.name)
        continue
      if isinstance(ch, (ast.Lambda, ast.ClassDef, ast.ListComp, ast.SetComp,
                         ast.DictComp, ast.GeneratorExp)):
        continue
      if isinstance(ch, ast.Name) and isinstance(ch.ctx, ast.Store):
        names.add(ch.id)
      visit(ch)
  if not isinstance(fn, ast.Lambda):
    for st in fn.body:
      if isinstance(st, ast.Name) and isinstance(st.ctx, ast.Store):
        names.add(st.id)
      visit(ast.Module(body=[st], type_ignores=[]))
  _LOCALS_CACHE[id(fn)] = (fn, frozenset(names))
  return _LOCALS_CACHE[id(fn)][1]


BUILTINS = {
    "eval", "exec", "compile", "__import__", "globals", "isinstance", "len", "range", "list", "tuple", "dict", "float", "int",
    "str", "repr", "abs", "max", "min", "pow", "hasattr", "getattr", "zip",
    "enumerate", "callable", "bool", "print", "sum", "sorted", "type", "any",
    "all", "round", "set", "super", "object", "ValueError", "TypeError",
    "AttributeError", "AssertionError", "SyntaxError", "Exception", "cast",
    "NotImplementedError", "KeyError", "reversed", "map", "id", "setattr",
    "issubclass", "divmod", "UnboundLocalError", "IndexError", "filter",
    "frozenset",
}


def _as_load(target):
  t = ast.parse(ast.unparse(target), mode="eval").body
  ast.copy_location(t, target)
  for n in ast.walk(t):
    if not hasattr(n, "lineno"):
      n.lineno = getattr(target, "lineno", 0)
      n.col_offset = 0
  return t
