"""qkstat: repository-specific static analyses for google/qkeras.

Nothing in this package imports qkeras, TensorFlow or Keras; everything is
decided from the syntax trees of /repo's current working tree.
"""
