"""Reference semantics written from the class docstrings / the property
statements, independent of the analysed code: declared code sets, surrogate
activations, configuration lattices."""
from fractions import Fraction as F
import itertools

from .vset import VS
from . import vset as V


def p2(e):
  return F(2) ** int(e)


# ---------------------------------------------------------------------------
# C01: declared code sets of the fixed-point formats

def codes_quantized_bits(bits, integer, keep_negative, symmetric, alpha):
  a = F(1) if alpha is None else F(alpha)
  ub = bits - int(bool(keep_negative))
  if ub <= 0:
    # 1-bit signed: the documented binary special case {-1, +1}
    return VS.fin([-a, a]), "two-valued {-a,+a}"
  step = p2(integer) / p2(ub) * a
  klo = int(bool(keep_negative)) * (-(2 ** ub) + int(bool(symmetric)))
  khi = 2 ** ub - 1
  return VS.grid(step, 0, klo * step, khi * step), \
      "step=%s k in [%d,%d]" % (step, klo, khi)


def codes_quantized_linear(bits, integer, keep_negative, symmetric, alpha):
  a = F(1) if alpha is None else F(alpha)
  kn = int(bool(keep_negative))
  ub = bits - kn
  step = p2(integer - bits + kn) * a
  if bits == 1 and kn:
    # documented scaled sign function: +-step/2
    return VS.fin([-step / 2, step / 2]), "two-valued +-step/2"
  klo = kn * (-(2 ** ub) + int(bool(symmetric)))
  khi = 2 ** ub - 1
  return VS.grid(step, 0, klo * step, khi * step), \
      "step=%s k in [%d,%d]" % (step, klo, khi)


def codes_quantized_relu(bits, integer, negative_slope):
  slope = F(negative_slope)
  nsb = bits - int(slope != 0)
  step = p2(integer) / p2(nsb)
  khi = 2 ** nsb - 1
  if slope == 0:
    return VS.grid(step, 0, 0, khi * step), "step=%s k in [0,%d]" % (step,
                                                                      khi)
  # leaky: negative side bounded by -slope * 2**integer, on the same grid
  lo = -slope * p2(integer)
  return VS.grid(step, 0, lo, khi * step), \
      "step=%s range [%s,%s]" % (step, lo, khi * step)


def codes_quantized_tanh(bits, symmetric):
  m = p2(bits - 1)
  step = 1 / m
  klo = -int(m) + int(bool(symmetric))
  return VS.grid(step, 0, klo * step, (m - 1) * step), \
      "step=%s k in [%d,%d]" % (step, klo, m - 1)


def codes_quantized_sigmoid(bits, symmetric):
  m = p2(bits)
  step = 1 / m
  klo = int(bool(symmetric))
  return VS.grid(step, 0, klo * step, (m - 1) * step), \
      "step=%s k in [%d,%d]" % (step, klo, m - 1)


def card_bound(vs, bits):
  """|vs| <= 2**bits for a finite / bounded grid set."""
  if vs.kind == "fin":
    return len(vs.vals) <= 2 ** bits
  if vs.kind == "grid" and vs.g and vs.lo is not None and vs.hi is not None:
    return (vs.hi - vs.lo) / vs.g + 1 <= 2 ** bits
  return False


# ---------------------------------------------------------------------------
# lattices (quick / thorough)

def lattice_fixed_point(tier, relu_bound=False):
  """Yields (class name, kwargs, oracle VS, oracle text, bits)."""
  if tier == "thorough":
    bits_r, int_r = range(1, 17), range(-3, 8)
    alphas = (None, F(1), F(2), F(1, 4))
    slopes = (F(0), F(1, 2), F(1, 4), F(1, 8), F(1, 16))
  else:
    bits_r, int_r = range(1, 9), range(-2, 4)
    alphas = (None, F(1), F(2))
    slopes = (F(0), F(1, 4), F(1, 8))
  # formats at the ends of what the constructors accept: a step far below
  # every epsilon of the library (2^-25, 2^-26), many bits, more integer
  # bits than bits
  extremes = [(8, -18, True, 0, None), (26, 0, True, 0, None),
              (26, 0, False, 1, None), (4, -18, False, 0, F(1)),
              (4, 9, True, 0, None), (3, 7, False, 0, None)]
  for bits, integer, kn, sym, alpha in list(itertools.product(
      bits_r, int_r, (True, False), (0, 1), alphas)) + extremes:
    kw = dict(bits=bits, integer=integer, keep_negative=kn, symmetric=sym,
              alpha=alpha)
    s, txt = codes_quantized_bits(bits, integer, kn, sym, alpha)
    yield "quantized_bits", kw, s, txt, bits
  for bits, integer, kn, sym, alpha in list(itertools.product(
      bits_r, int_r, (True, False), (0, 1), alphas)) + extremes:
    kw = dict(bits=bits, integer=integer, keep_negative=kn, symmetric=sym,
              alpha=alpha)
    s, txt = codes_quantized_linear(bits, integer, kn, sym, alpha)
    yield "quantized_linear", kw, s, txt, bits
  for bits, integer, slope, sig in itertools.product(
      bits_r, int_r, slopes, (0, 1)):
    kw = dict(bits=bits, integer=integer, negative_slope=slope,
              use_sigmoid=sig)
    s, txt = codes_quantized_relu(bits, integer, slope)
    yield "quantized_relu", kw, s, txt, bits
    # relu_upper_bound x is_quantized_clip: the quantized clip has
    # precedence, so the bound is inert while is_quantized_clip is set (and
    # when it lies above the largest code); a bound on the grid below the
    # largest code only removes codes
    if relu_bound and sig == 0 and slope == 0 and (
        tier == "thorough" or bits <= 5):
      for bound, iqc in ((p2(integer - 1), True), (p2(integer + 1), False),
                         (p2(integer - 1), False)):
        kw2 = dict(kw, relu_upper_bound=bound, is_quantized_clip=iqc)
        yield "quantized_relu", kw2, s, txt, bits
  for bits, sym, real in itertools.product(bits_r, (False, True),
                                           (False, True)):
    kw = dict(bits=bits, symmetric=sym, use_real_tanh=real)
    s, txt = codes_quantized_tanh(bits, sym)
    yield "quantized_tanh", kw, s, txt, bits
  for bits, sym, real in itertools.product(bits_r, (False, True),
                                           (False, True)):
    kw = dict(bits=bits, symmetric=sym, use_real_sigmoid=real)
    s, txt = codes_quantized_sigmoid(bits, sym)
    yield "quantized_sigmoid", kw, s, txt, bits


def show_kwargs(kw):
  def f(v):
    if isinstance(v, F):
      return str(v.numerator) if v.denominator == 1 else "%d/%d" % (
          v.numerator, v.denominator)
    return repr(v)
  return ",".join("%s=%s" % (k, f(v)) for k, v in kw.items())
