"""Analyses on the quantizer IR: forward normal form, value sets, symbolic
derivative of the gradient skeleton (DESIGN 2.4/2.5)."""
from fractions import Fraction
import math

from .loader import AnalysisError
from .nf import NF, to_nf, show, show_atom, log2_exact
from . import vset as V
from .vset import VS

LN2_ATOM = ("sym", "ln2")


class NeedSplit(Exception):
  """The region of x must be split at this point to decide a piecewise
  primitive."""

  def __init__(self, point):
    Exception.__init__(self, "split at %s" % point)
    self.point = point


# ---------------------------------------------------------------------------
# constant folding of applications

def _round_he(v):
  fl = math.floor(v)
  d = v - fl
  if d > Fraction(1, 2) or (d == Fraction(1, 2) and fl % 2 == 1):
    return Fraction(fl + 1)
  return Fraction(fl)


def simplify_app(fname, attrs, args):
  """Fold an application whose arguments are constant NFs.  Returns an NF or
  None."""
  cs = [a.const_value() if isinstance(a, NF) else None for a in args]
  if fname in ("round", "floor", "ceil", "sign", "abs") and cs[0] is not None:
    c = cs[0]
    if fname == "round":
      return NF.const(_round_he(c))
    if fname == "floor":
      return NF.const(math.floor(c))
    if fname == "ceil":
      return NF.const(math.ceil(c))
    if fname == "sign":
      return NF.const((c > 0) - (c < 0))
    return NF.const(abs(c))
  if fname == "abs":
    # abs(c * t) = |c| * abs(t)
    sm = args[0].single_monomial()
    if sm is not None and sm[1] != 1 and sm[0]:
      m, c = sm
      return NF({m: Fraction(1)}).__class__.app(
          "abs", (NF({m: Fraction(1)}),)) * abs(c)
  if fname == "sign":
    sm = args[0].single_monomial()
    if sm is not None and sm[1] != 1 and sm[0]:
      m, c = sm
      inner = NF.app("sign", (NF({m: Fraction(1)}),))
      return inner * (1 if c > 0 else -1)
  if fname == "relu" and cs[0] is not None:
    c = cs[0]
    return NF.const(c if c >= 0 else c * attrs[0])
  if fname == "relu":
    # relu_a(c * t), c > 0  ->  c * relu_a(t)
    sm = args[0].single_monomial()
    if sm is not None and sm[1] > 0 and sm[1] != 1 and sm[0]:
      m, c = sm
      return NF.app("relu", (NF({m: Fraction(1)}),), attrs) * c
  if fname == "clip" and cs[0] is not None:
    c = cs[0]
    lo, hi = _bound_const(args[1]), _bound_const(args[2])
    if (lo is not NOTCONST) and (hi is not NOTCONST):
      if lo is not None:
        c = max(c, lo)
      if hi is not None:
        c = min(c, hi)
      return NF.const(c)
  if fname == "clip":
    lo, hi = _bound_const(args[1]), _bound_const(args[2])
    if lo is not NOTCONST and hi is not NOTCONST and lo is not None and \
        lo == hi:
      return NF.const(lo)
  if fname in ("maximum", "minimum") and cs[0] is not None and \
      cs[1] is not None:
    return NF.const(max(cs) if fname == "maximum" else min(cs))
  if fname == "pow2" and cs[0] is not None and cs[0].denominator == 1 and \
      abs(cs[0]) <= 4096:
    return NF.const(Fraction(2) ** int(cs[0]))
  if fname == "log2" and cs[0] is not None and cs[0] > 0:
    e = log2_exact(cs[0])
    if e is not None:
      return NF.const(e)
  if fname == "sqrt" and cs[0] is not None and cs[0] >= 0:
    c = cs[0]
    r = math.isqrt(c.numerator * c.denominator)
    if r * r == c.numerator * c.denominator:
      return NF.const(Fraction(r, c.denominator))
  if fname == "cmp" and cs[0] is not None and cs[1] is not None:
    return NF.const(int(_cmp(attrs[0], cs[0], cs[1])))
  if fname == "where":
    c = cs[0]
    if c is not None:
      return args[1] if c != 0 else args[2]
    if args[1] == args[2]:
      return args[1]
  if fname == "not" and cs[0] is not None:
    return NF.const(int(cs[0] == 0))
  if fname == "or":
    if any(c is not None and c != 0 for c in cs):
      return NF.const(1)
  if fname == "and":
    if any(c is not None and c == 0 for c in cs):
      return NF.const(0)
  if fname in ("reduce_max", "reduce_min", "reduce_mean") and \
      cs[0] is not None:
    return NF.const(cs[0])
  if fname == "recip" and cs[0] is not None and cs[0] != 0:
    return NF.const(1 / cs[0])
  if fname == "recip" and args[0].single_monomial() is not None:
    return args[0].inverse()
  if fname == "log" and cs[0] is not None:
    if cs[0] == 1:
      return NF.const(0)
    if cs[0] == 2:
      return NF.atom(LN2_ATOM)
  if fname in ("reshape", "variable", "expand_dims") and \
      isinstance(args[0], NF):
    return args[0]     # element-wise identity (shape only / variable read)
  if fname == "join":
    uniq = []
    for a in args:
      if a not in uniq:
        uniq.append(a)
    if len(uniq) == 1:
      return uniq[0]
  return None


NOTCONST = object()
NONE_BOUND = ("c", None)


def _bound_const(nf):
  if nf is None:
    return None
  c = nf.const_value()
  return NOTCONST if c is None else c


def _cmp(op, a, b):
  return {"lt": a < b, "le": a <= b, "gt": a > b, "ge": a >= b,
          "eq": a == b, "ne": a != b}[op]


COMMUTATIVE = ("maximum", "minimum", "or", "and")


def mk_app(fname, args, attrs=()):
  if fname in COMMUTATIVE:
    args = sorted(args, key=lambda a: (0, hash(a)) if isinstance(a, NF)
                  else (1, 0))
  r = simplify_app(fname, tuple(attrs), tuple(args))
  if r is not None:
    return to_nf(r)
  return NF.app(fname, args, attrs)


# ---------------------------------------------------------------------------
# forward normal form of a term

class Fwd(object):
  """term -> NF with stop_gradient transparent.  `phase` selects the arm of
  smart_cond(K.learning_phase(), ...): 'train' or 'infer'."""

  def __init__(self, phase="infer", syms=None):
    self.phase = phase
    self.syms = syms or {}
    self.memo = {}

  def __call__(self, t):
    r = self.memo.get(id(t))
    if r is None:
      r = (t, self._fwd(t))
      self.memo[id(t)] = r
    return r[1]

  def _fwd(self, t):
    k = t[0]
    if k == "c":
      if t[1] is None:
        return None
      return NF.const(t[1])
    if k == "x":
      return NF.x()
    if k == "sym":
      if t[1] in self.syms:
        return to_nf(self.syms[t[1]])
      return NF.sym(t[1])
    if k == "add":
      return self(t[1]) + self(t[2])
    if k == "mul":
      return self(t[1]) * self(t[2])
    if k == "div":
      d = self(t[2])
      if d.is_zero():
        return NF.app("div0", (self(t[1]),))
      return self(t[1]) / d
    if k == "neg":
      return -self(t[1])
    if k == "sg":
      return self(t[1])
    if k == "app":
      args = [self(a) for a in t[3]]
      return mk_app(t[1], args, t[2])
    if k == "where":
      return mk_app("where", [self(t[1]), self(t[2]), self(t[3])])
    if k == "cmp":
      return mk_app("cmp", [self(t[2]), self(t[3])], (t[1],))
    if k == "bool":
      return mk_app(t[1], [self(a) for a in t[2:]])
    if k == "phase":
      return self(t[1] if self.phase == "train" else t[2])
    if k == "rand":
      return NF.app("rand", (self(t[2]), self(t[3])), (t[1],))
    if k == "join":
      return mk_app("join", [self(a) for a in t[1:]])
    raise AnalysisError("unsupported-construct IR node %r" % (k,))


# ---------------------------------------------------------------------------
# value-set evaluation of an NF

class Env(object):
  def __init__(self, x=None, syms=None, xsign=None, open_region=False):
    self.x = x if x is not None else VS.real()
    self.syms = syms or {}
    self.xsign = xsign    # -1, 0, +1 or None : strict sign of x on region
    # open_region: decisions are about the interior of the x interval
    # (used by the derivative, where single points do not matter)
    self.open_region = open_region


FINITE_ATOMS = ("sign", "cmp", "or", "and", "not")


class Eval(object):
  def __init__(self, env, split_budget=6):
    self.env = env
    self.memo = {}
    self.split_budget = split_budget

  def nf(self, nf):
    r = self.memo.get(nf)
    if r is None:
      r = self._poly(nf)
      self.memo[nf] = r
    return r

  def _occurrences(self, nf):
    counts = {}
    seen = set()
    def visit_nf(p):
      # every reference to p counts its top-level finite atoms again (p may
      # be shared by several parents); recursion happens once per NF
      first = p not in seen
      seen.add(p)
      for m in p.terms:
        for a, _ in m:
          if a[0] == "app":
            if a[1] in FINITE_ATOMS:
              counts[a] = counts.get(a, 0) + 1
            if first and not a[1].startswith("reduce_"):
              for arg in a[3]:
                if isinstance(arg, NF):
                  visit_nf(arg)
    visit_nf(nf)
    return counts

  def _poly(self, nf):
    if nf.is_zero():
      return VS.const(0)
    c = nf.const_value()
    if c is not None:
      return VS.const(c)
    # case split on a finite-valued atom that occurs more than once
    if self.split_budget > 0 and len(nf.terms) + sum(
        len(m) for m in nf.terms) > 1:
      occ = self._occurrences(nf)
      multi = [a for a, n in occ.items() if n > 1]
      if multi:
        # innermost first: an atom none of whose arguments contains another
        # candidate
        multi.sort(key=lambda a: len(repr(a)))
        a = multi[0]
        vs = self.atom(a)
        if vs.kind == "fin" and 0 < len(vs.vals) <= 3:
          out = V.EMPTY
          for v in sorted(vs.vals):
            try:
              sub = nf.subst({a: NF.const(v)}, simplify_app)
            except ZeroDivisionError:
              # this case makes a denominator vanish (inf/nan at run time)
              out = V.join(out, VS.real())
              continue
            ev = Eval(self.env, self.split_budget - 1)
            out = V.join(out, ev.nf(sub))
          return out
    total = None
    for m, c in nf.terms.items():
      tv = VS.const(c)
      for a, e in m:
        av = self.atom(a)
        tv = V.mul(tv, V.power(av, e) if e != 1 else av)
      total = tv if total is None else V.add(total, tv)
    return total

  def atom(self, a):
    r = self.memo.get(a)
    if r is None:
      r = self._atom(a)
      self.memo[a] = r
    return r

  def _bound(self, nf):
    """Constant value of a clip bound (None when absent); raises when not
    constant."""
    if nf is None:
      return None
    v = self.nf(nf)
    return v

  def _atom(self, a):
    k = a[0]
    if k == "x":
      return self.env.x
    if k == "sym":
      if a[1] in self.env.syms:
        return self.env.syms[a[1]]
      if a[1] == "ln2":
        l = Fraction(math.log(2.0))
        return VS.real(l - Fraction(1, 10**12), l + Fraction(1, 10**12))
      if a[1].startswith("ln("):
        c = Fraction(a[1][3:-1])
        l = Fraction(math.log(float(c)))
        return VS.real(l - Fraction(1, 10**9), l + Fraction(1, 10**9))
      return VS.real()
    if k != "app":
      return VS.real()
    f, attrs, args = a[1], a[2], a[3]
    ev = self.nf
    if f in ("round", "floor", "ceil"):
      return V.rounding(ev(args[0]), f)
    if f == "sign":
      if self.env.xsign is not None:
        sm = args[0].single_monomial()
        if sm is not None and sm[0] == ((("x",), 1),):
          s = self.env.xsign * (1 if sm[1] > 0 else -1)
          return VS.const(s)
      return V.sign(ev(args[0]))
    if f == "abs":
      return V.vabs(ev(args[0]))
    if f == "relu":
      return V.relu(ev(args[0]), attrs[0])
    if f == "clip":
      lo = self._const_bound(args[1])
      hi = self._const_bound(args[2])
      base = ev(args[0])
      if lo is NOTCONST or hi is NOTCONST:
        lov = None if args[1] is None else ev(args[1])
        hiv = None if args[2] is None else ev(args[2])
        blo, bhi = base.bounds()
        l2 = lov.bounds()[0] if lov is not None else blo
        h2 = hiv.bounds()[1] if hiv is not None else bhi
        if lov is not None and blo is not None and l2 is not None:
          l2 = min(l2, blo) if False else l2
        # result lies between the smallest possible lower bound and the
        # largest possible upper bound, and is either a base value or a
        # bound value
        out = V.restrict(base, lov.bounds()[0] if lov is not None else None,
                         hiv.bounds()[1] if hiv is not None else None)
        if lov is not None:
          out = V.join(out, lov)
        if hiv is not None:
          out = V.join(out, hiv)
        return out
      return V.clip(base, lo, hi)
    if f == "maximum":
      va, vb = ev(args[0]), ev(args[1])
      cb = vb.const_value()
      ca = va.const_value()
      if cb is not None:
        return V.clip(va, cb, None)
      if ca is not None:
        return V.clip(vb, ca, None)
      lo = V._max(va.bounds()[0], vb.bounds()[0]) \
          if (va.bounds()[0] is not None and vb.bounds()[0] is not None) \
          else (va.bounds()[0] if vb.bounds()[0] is None else vb.bounds()[0])
      return V.restrict(V.join(va, vb), lo, None)
    if f == "minimum":
      va, vb = ev(args[0]), ev(args[1])
      cb = vb.const_value()
      ca = va.const_value()
      if cb is not None:
        return V.clip(va, None, cb)
      if ca is not None:
        return V.clip(vb, None, ca)
      ha, hb = va.bounds()[1], vb.bounds()[1]
      hi = ha if hb is None else (hb if ha is None else min(ha, hb))
      return V.restrict(V.join(va, vb), None, hi)
    if f == "pow2":
      return V.pow2(ev(args[0]))
    if f == "log2":
      return V.log2(ev(args[0]))
    if f == "log":
      v = V.log2(ev(args[0]))
      l = Fraction(math.log(2.0))
      return V.mul(v, VS.real(l - Fraction(1, 10**12), l + Fraction(1, 10**12)))
    if f == "exp":
      return V.monotone_float(ev(args[0]), math.exp, Fraction(0), None)
    if f == "sqrt":
      return V.sqrt(ev(args[0]))
    if f == "rsqrt":
      return V.recip(V.sqrt(ev(args[0])))
    if f == "tanh":
      return V.monotone_float(ev(args[0]), math.tanh, Fraction(-1),
                              Fraction(1))
    if f == "sigmoid":
      return V.monotone_float(
          ev(args[0]), lambda v: 1.0 / (1.0 + math.exp(-v)) if v > -700
          else 0.0, Fraction(0), Fraction(1))
    if f == "recip":
      return V.recip(ev(args[0]))
    if f == "cmp":
      return self._cmp(attrs[0], args[0], args[1])
    if f in ("or", "and", "not"):
      vals = [ev(x) for x in args]
      if f == "not":
        c = vals[0].const_value()
        return VS.fin([0, 1]) if c is None else VS.const(int(c == 0))
      return VS.fin([0, 1])
    if f == "where":
      return self._where(args[0], args[1], args[2])
    if f == "rand":
      lo = ev(args[0]).bounds()[0]
      hi = ev(args[1]).bounds()[1]
      return VS.real(lo, hi)
    if f.startswith("reduce_"):
      # x is bound inside a reduction (all elements): evaluate the argument
      # without the element-wise region assumptions
      if self.env.x.kind != "grid" or self.env.x.g != 0 or \
          self.env.x.lo is not None or self.env.x.hi is not None or \
          self.env.xsign is not None:
        outer = getattr(self, "_outer", None)
        if outer is None:
          outer = Eval(Env(syms=self.env.syms), self.split_budget)
          self._outer = outer
        ev = outer.nf
    if f in ("reduce_max", "reduce_min"):
      return ev(args[0])
    if f == "reduce_mean":
      lo, hi = ev(args[0]).bounds()
      return VS.real(lo, hi)
    if f == "reduce_sum":
      lo, hi = ev(args[0]).bounds()
      return VS.real(Fraction(0) if lo is not None and lo >= 0 else None,
                     Fraction(0) if hi is not None and hi <= 0 else None)
    if f in ("reduce_std", "reduce_var"):
      return VS.real(Fraction(0), None)
    if f in ("reduce_any", "reduce_all"):
      return VS.fin([0, 1])
    if f == "join":
      return V.join_all(ev(x) for x in args)
    if f in ("reshape", "repeat", "slice", "index", "tile", "expand_dims"):
      return ev(args[0])
    if f == "concat":
      return V.join_all(ev(x) for x in args)
    if f == "mod":
      vb = ev(args[1])
      cb = vb.const_value()
      if cb is not None and cb > 0:
        return VS.real(Fraction(0), cb)
      return VS.real()
    return VS.real()

  def _const_bound(self, nf):
    if nf is None:
      return None
    c = nf.const_value()
    if c is not None:
      return c
    v = self.nf(nf)
    c = v.const_value()
    return NOTCONST if c is None else c

  def affine_x(self, nf):
    """(a, b) when nf == a*x + b exactly, else None."""
    a = Fraction(0)
    b = Fraction(0)
    for m, c in nf.terms.items():
      if m == ():
        b = c
      elif m == ((("x",), 1),):
        a = c
      else:
        return None
    return a, b

  def strict_sign(self, nf):
    """+1 / -1 if nf is > 0 / < 0 on the whole region (its interior when
    env.open_region), 0 if identically zero, None when unknown."""
    if nf.is_zero():
      return 0
    ab = self.affine_x(nf)
    if ab is None and self.env.open_region:
      # piecewise-affine in x (relu / clip / abs of affine arguments)
      from . import pwa
      lo_, hi_ = self.env.x.bounds()
      try:
        ab = pwa.Affine(lo_, hi_).nf(nf)
        if ab[0] == 0:
          return (ab[1] > 0) - (ab[1] < 0)
      except (pwa.Split, pwa.NotAffine):
        ab = None
    if ab is not None and ab[0] != 0 and self.env.open_region:
      a, b = ab
      root = -b / a
      lo, hi = self.env.x.bounds()
      if (lo is None or root > lo) and (hi is None or root < hi):
        return None
      # constant sign on the open region: evaluate at an interior point
      if lo is not None and hi is not None:
        p = (lo + hi) / 2
      elif lo is not None:
        p = lo + 1
      elif hi is not None:
        p = hi - 1
      else:
        return None
      v = a * p + b
      return 1 if v > 0 else -1
    sm = nf.single_monomial()
    if sm is not None and (len(sm[0]) > 1 or (sm[0] and sm[0][0][1] != 1)):
      # sign of a monomial = product of the signs of its factors
      s = 1 if sm[1] > 0 else -1
      for a, e in sm[0]:
        sa = self.strict_sign(NF.atom(a))
        if sa is None or (sa == 0 and e < 0):
          s = None
          break
        if sa == 0:
          return 0
        if e % 2:
          s *= sa
      if s is not None:
        return s
    v = self.nf(nf)
    if v.is_empty():
      return None
    lo, hi = v.bounds()
    if self.env.xsign is not None:
      if sm is not None and sm[0] == ((("x",), 1),):
        return self.env.xsign * (1 if sm[1] > 0 else -1)
    if lo is not None and lo > 0:
      return 1
    if hi is not None and hi < 0:
      return -1
    if lo == 0 and hi == 0:
      return 0
    return None

  def decide_cmp(self, op, a, b):
    """True / False / None."""
    d = a - b
    ss = self.strict_sign(d)
    if ss is not None:
      return {"lt": ss < 0, "le": ss <= 0, "gt": ss > 0, "ge": ss >= 0,
              "eq": ss == 0, "ne": ss != 0}[op]
    v = self.nf(d)
    lo, hi = v.bounds()
    if v.is_empty():
      return None
    # strict sign of x on the region sharpens comparisons of c*x with 0
    if self.env.xsign is not None:
      sm = d.single_monomial()
      if sm is not None and sm[0] == ((("x",), 1),):
        s = self.env.xsign * (1 if sm[1] > 0 else -1)
        lo = hi = Fraction(s)
    if op == "lt":
      if hi is not None and hi < 0:
        return True
      if lo is not None and lo >= 0:
        return False
    elif op == "le":
      if hi is not None and hi <= 0:
        return True
      if lo is not None and lo > 0:
        return False
    elif op == "gt":
      if lo is not None and lo > 0:
        return True
      if hi is not None and hi <= 0:
        return False
    elif op == "ge":
      if lo is not None and lo >= 0:
        return True
      if hi is not None and hi < 0:
        return False
    elif op == "eq":
      if (lo is not None and lo > 0) or (hi is not None and hi < 0):
        return False
      if lo == 0 and hi == 0:
        return True
    elif op == "ne":
      if (lo is not None and lo > 0) or (hi is not None and hi < 0):
        return True
      if lo == 0 and hi == 0:
        return False
    return None

  def _cmp(self, op, a, b):
    r = self.decide_cmp(op, a, b)
    if r is None:
      return VS.fin([0, 1])
    return VS.const(int(r))

  def decide(self, cond):
    """cond: NF of a boolean tensor; True/False/None."""
    c = cond.const_value()
    if c is not None:
      return c != 0
    a = cond.single_atom()
    if a is None or a[0] != "app":
      return None
    if a[1] == "cmp":
      return self.decide_cmp(a[2][0], a[3][0], a[3][1])
    if a[1] == "not":
      r = self.decide(a[3][0])
      return None if r is None else not r
    if a[1] == "or":
      rs = [self.decide(x) for x in a[3]]
      if any(r is True for r in rs):
        return True
      if all(r is False for r in rs):
        return False
      return None
    if a[1] == "and":
      rs = [self.decide(x) for x in a[3]]
      if any(r is False for r in rs):
        return False
      if all(r is True for r in rs):
        return True
      return None
    return None

  def _refine(self, val_nf, cond, truth):
    """Value set of val_nf under the assumption cond == truth, when cond is
    a comparison one side of which is val_nf and the other a constant."""
    v = self.nf(val_nf)
    a = cond.single_atom()
    if a is None or a[0] != "app" or a[1] != "cmp":
      return v
    op = a[2][0]
    l, r = a[3]
    if not truth:
      op = {"lt": "ge", "le": "gt", "gt": "le", "ge": "lt", "eq": "ne",
            "ne": "eq"}[op]
    if l == val_nf:
      other = self.nf(r)
    elif r == val_nf:
      other = self.nf(l)
      op = {"lt": "gt", "le": "ge", "gt": "lt", "ge": "le", "eq": "eq",
            "ne": "ne"}[op]
    else:
      return v
    olo, ohi = other.bounds()
    # val op other
    if op in ("lt", "le"):
      return V.restrict(v, None, ohi)
    if op in ("gt", "ge"):
      return V.restrict(v, olo, None)
    if op == "eq":
      return V.restrict(v, olo, ohi)
    return v

  def _where(self, cond, a, b):
    d = self.decide(cond)
    if d is True:
      return self.nf(a)
    if d is False:
      return self.nf(b)
    return V.join(self._refine(a, cond, True), self._refine(b, cond, False))


def equal_mod_finite(a, b, env=None, max_atoms=3, _budget=None):
  """a == b as functions, decided by normal-form identity after enumerating
  the values of the finite-valued atoms (sign / comparison) they contain.
  Effort is bounded: when the budget runs out the answer is False ("not
  proven equal")."""
  if a is b:
    return True
  d = a - b
  if d.is_zero():
    return True
  if _budget is None:
    _budget = [120]
  _budget[0] -= 1
  if _budget[0] <= 0:
    return False
  # reductions bind x: unify reduction atoms whose arguments are equal as
  # functions (decided recursively), then compare what is left
  def reductions(nf):
    return [at for at in nf.atoms() if at[0] == "app" and
            at[1].startswith("reduce_")]
  ra, rb = reductions(a), reductions(b)
  mp = {}
  for atb in rb:
    if atb in ra:
      continue
    for ata in ra:
      if ata[1] == atb[1] and ata[2] == atb[2] and max_atoms > 0 and \
          equal_mod_finite(ata[3][0], atb[3][0], None, max_atoms, _budget):
        mp[atb] = NF.atom(ata)
        break
  if mp:
    b2 = b.subst(mp, simplify_app)
    if b2 != b:
      return equal_mod_finite(a, b2, env, max_atoms, _budget)
  ev = Eval(env or Env())
  cands = []
  for at in d.atoms():
    if at[0] == "app" and at[1] in FINITE_ATOMS:
      vs = ev.atom(at)
      if vs.kind == "fin" and 0 < len(vs.vals) <= 3:
        cands.append((at, sorted(vs.vals)))
  if not cands:
    return False
  # innermost first
  cands.sort(key=lambda c: len(NF.atom(c[0]).atoms()))
  at, vals = cands[0]
  if max_atoms <= 0:
    return False
  for v in vals:
    try:
      sa = a.subst({at: NF.const(v)}, simplify_app)
      sb = b.subst({at: NF.const(v)}, simplify_app)
    except ZeroDivisionError:
      return False
    if not equal_mod_finite(sa, sb, env, max_atoms - 1, _budget):
      return False
  return True


def expand_logs(nf):
  """log of a single monomial -> sum of logs of its (positive) factors.
  Only valid when every atom of the monomial is positive; callers state
  that assumption."""
  mapping = {}
  for a in nf.atoms():
    if a[0] == "app" and a[1] == "log":
      sm = a[3][0].single_monomial()
      if sm is not None and sm[1] > 0 and (len(sm[0]) > 1 or sm[1] != 1 or
                                           (sm[0] and sm[0][0][1] != 1)):
        m, c = sm
        r = NF()
        if c != 1:
          r = r + NF.sym("ln(%s)" % c) if c != 2 else r + NF.atom(LN2_ATOM)
        for at, e in m:
          r = r + NF.app("log", (NF.atom(at),)) * e
        mapping[a] = r
  if not mapping:
    return nf
  return expand_logs(nf.subst(mapping, simplify_app))


def value_set(nf, env=None):
  return Eval(env or Env()).nf(nf)


# ---------------------------------------------------------------------------
# derivative of the gradient skeleton

ZERO_GRAD = ("round", "floor", "ceil", "sign", "cmp", "rand", "or", "and",
             "not", "reduce_any", "reduce_all", "mod")


class Deriv(object):
  """d(term)/dx as an NF, with stop_gradient subtrees contributing zero.
  Piecewise primitives are decided on the region held by `env` (value sets
  of forward values); an undecidable primitive whose argument is affine in x
  raises NeedSplit(point)."""

  def __init__(self, fwd, env, wrt=("x",)):
    self.fwd = fwd
    self.env = env
    self.ev = Eval(env)
    self.memo = {}
    self.wrt = wrt
    self.unknown = []   # primitives left symbolic

  def __call__(self, t):
    r = self.memo.get(id(t))
    if r is None:
      r = (t, self._d(t))
      self.memo[id(t)] = r
    return r[1]

  def _affine_root(self, nf, target):
    """If nf == a*x + b (a != 0) return the x at which nf == target."""
    a = Fraction(0)
    b = Fraction(0)
    for m, c in nf.terms.items():
      if m == ():
        b = c
      elif m == ((("x",), 1),):
        a = c
      else:
        return None
    if a == 0:
      return None
    return (Fraction(target) - b) / a

  def _pwa_root(self, nf, target):
    """Root of nf == target when nf is piecewise affine in x on the current
    region (kinks of inner relu/clip/abs atoms split the region first)."""
    from . import pwa
    lo, hi = self.env.x.bounds()
    try:
      a, b = pwa.Affine(lo, hi).nf(nf)
    except pwa.Split as s:
      raise NeedSplit(s.point)
    except pwa.NotAffine:
      return None
    if a == 0:
      return None
    return (Fraction(target) - b) / a

  def _split_or_unknown(self, nf, target, what):
    p = self._affine_root(nf, target)
    if p is None:
      p = self._pwa_root(nf, target)
    if p is not None:
      lo, hi = self.env.x.bounds()
      if (lo is None or p > lo) and (hi is None or p < hi):
        raise NeedSplit(p)
    self.unknown.append(what)

  def _d(self, t):
    k = t[0]
    F = self.fwd
    if k in ("c", "rand", "cmp", "bool"):
      return NF()
    if k == "x":
      return NF.const(1) if self.wrt == ("x",) else NF()
    if k == "sym":
      return NF.const(1) if self.wrt == t else NF()
    if k == "add":
      return self(t[1]) + self(t[2])
    if k == "neg":
      return -self(t[1])
    if k == "mul":
      da, db = self(t[1]), self(t[2])
      r = NF()
      if not da.is_zero():
        r = r + da * F(t[2])
      if not db.is_zero():
        r = r + F(t[1]) * db
      return r
    if k == "div":
      da, db = self(t[1]), self(t[2])
      fb = F(t[2])
      r = NF()
      if not da.is_zero():
        r = r + da / fb
      if not db.is_zero():
        r = r - F(t[1]) * db / (fb * fb)
      return r
    if k == "sg":
      return NF()
    if k == "phase":
      return self(t[1] if F.phase == "train" else t[2])
    if k == "join":
      ds = [self(a) for a in t[1:]]
      if all(d == ds[0] for d in ds):
        return ds[0]
      return NF.app("d_join", tuple(ds))
    if k == "where":
      c = F(t[1])
      d = self.ev.decide(c)
      da, db = self(t[2]), self(t[3])
      if da == db:
        return da
      if d is True:
        return da
      if d is False:
        return db
      a = c.single_atom()
      if a is not None and a[0] == "app" and a[1] == "cmp":
        self._split_or_unknown(a[3][0] - a[3][1], 0, "where")
      else:
        self.unknown.append("where")
      return mk_app("where", [c, da, db])
    if k == "app":
      f, attrs, args = t[1], t[2], t[3]
      if f in ZERO_GRAD:
        return NF()
      if not args:
        return NF()
      du = self(args[0])
      if f in ("maximum", "minimum"):
        dv = self(args[1])
        if du.is_zero() and dv.is_zero():
          return NF()
        fu, fv = F(args[0]), F(args[1])
        d = self.ev.decide_cmp("ge" if f == "maximum" else "le", fu, fv)
        if d is True:
          return du
        if d is False:
          return dv
        self._split_or_unknown(fu - fv, 0, f)
        return mk_app("where", [mk_app("cmp", [fu, fv], (
            "ge" if f == "maximum" else "le",)), du, dv])
      if f == "clip":
        dlo = self(args[1]) if args[1] != NONE_BOUND else NF()
        dhi = self(args[2]) if args[2] != NONE_BOUND else NF()
        if du.is_zero() and dlo.is_zero() and dhi.is_zero():
          return NF()
        fu = F(args[0])
        lo, hi = F(args[1]), F(args[2])
        # tf.clip_by_value passes the gradient on lo <= u <= hi (inclusive)
        in_lo = True if lo is None else self.ev.decide_cmp("ge", fu, lo)
        in_hi = True if hi is None else self.ev.decide_cmp("le", fu, hi)
        if in_lo is True and in_hi is True:
          return du
        if in_lo is False:
          return dlo
        if in_hi is False:
          return dhi
        if in_lo is None and lo is not None:
          c = lo.const_value()
          if c is not None:
            self._split_or_unknown(fu, c, "clip-lo")
          else:
            self.unknown.append("clip-lo")
        if in_hi is None and hi is not None:
          c = hi.const_value()
          if c is not None:
            self._split_or_unknown(fu, c, "clip-hi")
          else:
            self.unknown.append("clip-hi")
        return NF.app("clipgrad", (fu, lo if lo is not None else NF(),
                                   hi if hi is not None else NF())) * du
      if du.is_zero() and all(self(a).is_zero() for a in args[1:]):
        return NF()
      fu = F(args[0])
      if f == "abs":
        v = self.ev.nf(fu)
        lo, hi = v.bounds()
        c = self.ev.strict_sign(fu)
        if c is not None and c != 0:
          return du * c
        if lo is not None and lo >= 0:
          return du
        if hi is not None and hi <= 0:
          return -du
        self._split_or_unknown(fu, 0, "abs")
        return mk_app("sign", [fu]) * du
      if f == "relu":
        v = self.ev.nf(fu)
        lo, hi = v.bounds()
        c = self.ev.strict_sign(fu)
        if (c is not None and c > 0) or (lo is not None and lo >= 0):
          return du
        if (c is not None and c < 0) or (hi is not None and hi <= 0):
          return du * attrs[0]
        self._split_or_unknown(fu, 0, "relu")
        return NF.app("relugrad", (fu,), attrs) * du
      if f == "tanh":
        th = mk_app("tanh", [fu])
        return (NF.const(1) - th * th) * du
      if f == "sigmoid":
        s = mk_app("sigmoid", [fu])
        return s * (NF.const(1) - s) * du
      if f == "log":
        return du / fu
      if f == "log2":
        return du / (fu * NF.atom(LN2_ATOM))
      if f == "exp":
        return mk_app("exp", [fu]) * du
      if f == "pow2":
        return mk_app("pow2", [fu]) * NF.atom(LN2_ATOM) * du
      if f == "sqrt":
        return du * Fraction(1, 2) / mk_app("sqrt", [fu])
      if f == "rsqrt":
        r = mk_app("rsqrt", [fu])
        return du * Fraction(-1, 2) * r * r * r
      if f == "recip":
        return -du / (fu * fu)
      if f in ("reshape", "repeat", "slice", "index", "tile",
               "expand_dims"):
        return du
      # reductions and anything else: opaque but non-zero
      return NF.app("d_" + f, (fu,), attrs) * du
    raise AnalysisError("unsupported-construct IR node %r in derivative" %
                        (k,))


def piecewise_derivative(term, phase="infer", syms=None, x_lo=None, x_hi=None,
                         max_regions=64):
  """Returns a list of (lo, hi, dNF, unknown-primitives) over consecutive
  open regions of x; regions are refined at the kinks of piecewise
  primitives whose argument is affine in x."""
  fwd = Fwd(phase, syms)
  todo = [(x_lo, x_hi)]
  out = []
  while todo:
    lo, hi = todo.pop(0)
    if len(out) + len(todo) > max_regions:
      raise AnalysisError("derivative: more than %d regions" % max_regions)
    xs = None
    if lo is not None and lo >= 0:
      xs = 1
    if hi is not None and hi <= 0:
      xs = -1
    env = Env(x=VS.real(lo, hi), xsign=xs, open_region=True,
              syms={k: VS.const(v) for k, v in (syms or {}).items()
                    if isinstance(v, (int, Fraction))})
    d = Deriv(fwd, env)
    try:
      r = d(term)
    except NeedSplit as s:
      todo.insert(0, (s.point, hi))
      todo.insert(0, (lo, s.point))
      continue
    out.append((lo, hi, r, list(d.unknown)))
  out.sort(key=lambda r: (r[0] is not None, r[0] if r[0] is not None else 0))
  return out
