"""CLI:  python -m qkstat.check --property C07 --tier quick|thorough

Exit 0: every obligation discharged or covered by a listed known finding.
Exit 1: at least one VIOLATION line (finding not listed as known).
Exit 2: ANALYSIS-ERROR (missing anchor, unsupported construct, vacuous rule).
"""
import argparse
import importlib
import os
import sys

from .loader import Repo, AnalysisError
from .report import run_check


def main(argv=None):
  ap = argparse.ArgumentParser()
  ap.add_argument("--property", required=True)
  ap.add_argument("--tier", default=os.environ.get("VERIF_TIER", "quick"),
                  choices=["quick", "thorough"])
  ap.add_argument("--replay", default=None)
  args = ap.parse_args(argv)
  prop = args.property.upper()
  try:
    mod = importlib.import_module("qkstat.rules.%s" % prop.lower())
  except ImportError as e:
    print("ANALYSIS-ERROR property=%s no rule module (%s)" % (prop, e))
    return 2

  def fn(rep):
    repo = Repo()
    st = repo.stats()
    rep.extra["repo_stats"] = st
    rep.extra["repo_root"] = repo.root
    mod.run(rep, repo, args.tier)

  return run_check(prop, args.tier, fn, level="other",
                   technique=getattr(mod, "TECHNIQUE", ""))


if __name__ == "__main__":
  sys.exit(main())
