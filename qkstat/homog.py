"""Homogeneity typing of an IR term in the input tensor.

Every sub-term gets a degree d such that t(c*x) == c**d * t(x) for every
c > 0 (the random draws held fixed): x has degree 1, constants degree 0 (zero
has any degree), reductions and shape operations keep the degree, products
add and quotients subtract degrees, a sum / maximum / selection needs equal
degrees, a rounding / logarithm / exponential needs a degree-0 argument, a
comparison needs equal degrees on both sides and sign() accepts any.  A term
with no degree is MIXED: its value does not simply scale with the input,
e.g. x / (reduce_max(|x|) + eps).

Used for the clause "the data-dependent threshold and scale follow the
magnitude of the data" (C04): with alpha='auto' the emitted code is
degree 0 (the same for x and 1000*x or x/1000) and the scale degree 1.
Nothing of the repository is executed.  Primitives outside the table raise
Inconclusive (never a finding).
"""
from fractions import Fraction

ANY = "any"
MIXED = "mixed"


class Inconclusive(Exception):
  pass


KEEP = ("reduce_max", "reduce_min", "reduce_mean", "reduce_sum",
        "reduce_std", "abs",
        "reshape", "identity", "cast", "repeat", "stop_gradient", "tile",
        "expand_dims", "variable", "relu", "neg", "transpose", "squeeze")
ZERO_ARG = ("round", "floor", "ceil", "log", "log2", "log10", "exp", "pow2",
            "tanh", "sigmoid", "softsign", "not")
SAME = ("maximum", "minimum", "clip", "add_n")


def _join(ds):
  out = ANY
  for d in ds:
    if d == MIXED:
      return MIXED
    if d == ANY:
      continue
    if out == ANY:
      out = d
    elif out != d:
      return MIXED
  return out


def _is_zero_const(t):
  if t[0] != "c":
    return False
  v = t[1]
  v = getattr(v, "value", v)
  try:
    return v is not None and not isinstance(v, str) and Fraction(v) == 0
  except (TypeError, ValueError):
    return False


class Degree(object):
  def __init__(self, phase="infer"):
    self.phase = phase
    self.memo = {}
    self.why = None     # the first sub-term found MIXED

  def __call__(self, t):
    r = self.memo.get(id(t))
    if r is None:
      d = self._deg(t)
      if d == MIXED and self.why is None:
        self.why = t
      r = (t, d)
      self.memo[id(t)] = r
    return r[1]

  def _deg(self, t):
    k = t[0]
    if k == "c":
      return ANY if _is_zero_const(t) else 0
    if k == "x":
      return 1
    if k in ("sym", "rand"):
      return 0
    if k == "add":
      return _join([self(t[1]), self(t[2])])
    if k == "mul":
      a, b = self(t[1]), self(t[2])
      if MIXED in (a, b):
        return MIXED
      if ANY in (a, b):
        return ANY
      return a + b
    if k == "div":
      a, b = self(t[1]), self(t[2])
      if MIXED in (a, b) or b == ANY:
        return MIXED
      if a == ANY:
        return ANY
      return a - b
    if k in ("neg", "sg"):
      return self(t[1])
    if k == "where":
      c = self(t[1])
      if c not in (0, ANY):
        return MIXED
      return _join([self(t[2]), self(t[3])])
    if k == "cmp":
      return MIXED if _join([self(t[2]), self(t[3])]) == MIXED else 0
    if k == "bool":
      ds = [self(a) for a in t[2:]]
      return 0 if all(d in (0, ANY) for d in ds) else MIXED
    if k == "phase":
      return self(t[1] if self.phase == "train" else t[2])
    if k == "join":
      return _join([self(a) for a in t[1:]])
    if k == "app":
      name, args = t[1], t[3]
      if name in KEEP and args:
        return self(args[0])
      if name == "sign" and args:
        return MIXED if self(args[0]) == MIXED else 0
      if name in ZERO_ARG and len(args) == 1:
        return 0 if self(args[0]) in (0, ANY) else MIXED
      if name in SAME:
        return _join([self(a) for a in args if a is not None and
                      not (a[0] == "c" and a[1] is None)])
      if name in ("square", "reduce_var") and args:
        d = self(args[0])
        return d if d in (MIXED, ANY) else 2 * d
      if name in ("sqrt", "rsqrt") and args:
        d = self(args[0])
        if d in (MIXED, ANY):
          return d
        return Fraction(d) / 2 * (1 if name == "sqrt" else -1)
      if name == "pow" and len(args) == 2:
        a, b = self(args[0]), self(args[1])
        if a in (0, ANY) and b in (0, ANY):
          return 0
        if args[1][0] == "c" and a not in (MIXED, ANY):
          try:
            return a * Fraction(getattr(args[1][1], "value", args[1][1]))
          except (TypeError, ValueError):
            pass
        return MIXED
      raise Inconclusive("primitive %s/%d" % (name, len(args)))
    raise Inconclusive("IR node %r" % (k,))
