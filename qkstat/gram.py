"""Model of the pyparsing subset used by qkeras/safe_eval.py (trusted
table): Suppress / Regex / Group / Optional / delimitedList / '+' sequencing,
parseString(...).asList().  pyparsing skips leading whitespace before every
token; Regex tokens are matched with the repository's own patterns."""
import re

from .pe import PyRaise


class Gram(object):
  gram_op = True

  def __init__(self, kind, *parts, **kw):
    self.kind = kind
    self.parts = parts
    self.kw = kw


class ParseResult(object):
  gram_method = True

  def __init__(self, items):
    self.items = items


class CompiledRe(object):
  """re.compile(pattern) on a constant pattern."""
  gram_method = True

  def __init__(self, pattern):
    self.pattern = pattern


class GlobalsDict(object):
  gram_method = True

  def __init__(self, pe, module):
    self.pe = pe
    self.module = module


def make(pe, name, args, kwargs):
  if name == "Suppress":
    a = args[0]
    return Gram("suppress", a if isinstance(a, Gram) else Gram("lit", a))
  if name == "Literal":
    return Gram("lit", args[0])
  if name == "Regex":
    return Gram("re", args[0])
  if name == "Group":
    return Gram("group", args[0])
  if name == "Optional":
    return Gram("opt", args[0])
  if name in ("delimitedList", "delimited_list"):
    delim = args[1] if len(args) > 1 else kwargs.get("delim", ",")
    return Gram("dlist", args[0], delim=delim)
  pe.err("pyparsing element %s is not modelled" % name)


def binop(pe, op, a, b):
  import ast
  if isinstance(op, ast.Add):
    ga = a if isinstance(a, Gram) else Gram("lit", a)
    gb = b if isinstance(b, Gram) else Gram("lit", b)
    return Gram("seq", ga, gb)
  pe.err("pyparsing operator %s is not modelled" % type(op).__name__)


def method(pe, recv, name, args, kwargs):
  if isinstance(recv, Gram):
    if name in ("parseString", "parse_string"):
      text = args[0]
      r = match(recv, text, 0)
      if r is None:
        raise PyRaise("ParseException", "cannot parse %r" % text)
      return ParseResult(r[1])
    pe.err("pyparsing method %s is not modelled" % name)
  if isinstance(recv, ParseResult):
    if name in ("asList", "as_list"):
      return recv.items
    pe.err("ParseResults method %s is not modelled" % name)
  if isinstance(recv, CompiledRe):
    if name in ("match", "search", "fullmatch") and args and \
        isinstance(args[0], str):
      from .pe import Opaque
      try:
        m = getattr(re.compile(recv.pattern), name)(args[0])
      except re.error:
        raise PyRaise("error", "bad regular expression")
      return Opaque("match") if m is not None else None
    if name == "sub" and len(args) >= 2 and all(isinstance(a, str)
                                                for a in args[:2]):
      return re.sub(recv.pattern, args[0], args[1])
    if name in ("findall", "split") and args and isinstance(args[0], str):
      # (standard-library semantics on constant strings; groups give tuples)
      return [tuple(m) if isinstance(m, tuple) else m
              for m in getattr(re.compile(recv.pattern), name)(args[0])]
    pe.err("compiled regex method %s is not modelled" % name)
  if isinstance(recv, GlobalsDict):
    if name == "get":
      key = args[0]
      default = args[1] if len(args) > 1 else None
      m = recv.module
      if key in m.functions or key in m.classes or key in m.assigns or \
          key in m.imports:
        return recv.pe.lookup_global(key, m)
      for star in m.star_imports:
        sm = m.repo.modules.get(star)
        if sm is not None and key in sm.public_names():
          return recv.pe.lookup_global(key, m)
      return default
    pe.err("globals() method %s is not modelled" % name)
  pe.err("method %s" % name)


def skip_ws(text, pos):
  while pos < len(text) and text[pos] in " \t\n\r":
    pos += 1
  return pos


def match(g, text, pos):
  """Returns (new pos, list of tokens) or None."""
  k = g.kind
  if k == "lit":
    pos = skip_ws(text, pos)
    s = g.parts[0]
    if text.startswith(s, pos):
      return pos + len(s), [s]
    return None
  if k == "suppress":
    r = match(g.parts[0], text, pos)
    if r is None:
      return None
    return r[0], []
  if k == "re":
    pos = skip_ws(text, pos)
    m = re.compile(g.parts[0]).match(text, pos)
    if m is None:
      return None
    return m.end(), [m.group(0)]
  if k == "seq":
    toks = []
    for p in g.parts:
      r = match(p, text, pos)
      if r is None:
        return None
      pos = r[0]
      toks.extend(r[1])
    return pos, toks
  if k == "group":
    r = match(g.parts[0], text, pos)
    if r is None:
      return None
    return r[0], [r[1]]
  if k == "opt":
    r = match(g.parts[0], text, pos)
    if r is None:
      return pos, []
    return r
  if k == "dlist":
    r = match(g.parts[0], text, pos)
    if r is None:
      return None
    pos, toks = r[0], list(r[1])
    while True:
      p2 = skip_ws(text, pos)
      d = g.kw.get("delim", ",")
      if not text.startswith(d, p2):
        break
      r = match(g.parts[0], text, p2 + len(d))
      if r is None:
        break
      pos = r[0]
      toks.extend(r[1])
    return pos, toks
  return None
