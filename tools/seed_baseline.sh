#!/bin/bash
# Developer tool: run the pinned baseline test command against a seeded change
# in a fresh scratch worktree and record in seeded/<label>/eval.json how many
# of the baseline's stable_pass tests still pass with the change applied.
#   tools/seed_baseline.sh <label>
LABEL=$1
set -u
WT=/tmp/seed/bl-$LABEL
git -C /repo worktree remove --force "$WT" >/dev/null 2>&1
git -C /repo worktree add -q --detach "$WT" HEAD || exit 2
cd "$WT"
git apply /verif/seeded/$LABEL/patch.diff || { echo "$LABEL PATCH DOES NOT APPLY"; git -C /repo worktree remove --force "$WT"; exit 2; }
OUT=/dev/shm/bl-$LABEL.junit.xml
PYTHONPATH=$WT timeout 3000 /venv/bin/python -m pytest -ra -q -p no:cacheprovider --timeout=900 --continue-on-collection-errors --junitxml=$OUT > /dev/shm/bl-$LABEL.log 2>&1
/venv/bin/python - "$OUT" "$LABEL" "$WT" <<'E'
import json, sys, xml.etree.ElementTree as ET
out, label, wt = sys.argv[1:4]
base = json.load(open("/root/.vp/BASELINE.json"))
passed = set()
for tc in ET.parse(out).iter("testcase"):
  if not any(c.tag in ("failure", "error", "skipped") for c in tc):
    passed.add("%s::%s" % (tc.get("classname"), tc.get("name")))
want = set(base["stable_pass"])
missing = sorted(want - passed)
p = "/verif/seeded/%s/eval.json" % label
ev = json.load(open(p))
ev["baseline_with_change"] = {
    "command": "pinned baseline pytest command run in a fresh worktree with "
               "the patch applied (PYTHONPATH=<worktree>)",
    "stable_pass": len(want), "still_passing": len(want & passed),
    "missing": missing}
json.dump(ev, open(p, "w"), indent=1)
print(label, "stable_pass", len(want), "still passing", len(want & passed))
E
grep -c "$WT/qkeras" /dev/shm/bl-$LABEL.log >/dev/null
cd /
git -C /repo worktree remove --force "$WT"
rm -f "$OUT"
