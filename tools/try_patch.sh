#!/bin/bash
# Developer tool: run the WORKING-TREE checks of the given properties against
# a scratch copy of /repo/qkeras with a seeded patch applied.
#   tools/try_patch.sh <label|patch file> Cxx [Cyy ...]
P=$1; shift
[ -f "$P" ] || P=/verif/seeded/$P/patch.diff
D=$(mktemp -d /dev/shm/try-XXXXXX)
cp -r /repo/qkeras $D/qkeras
patch -p1 -s -d $D -i $P || { echo "patch does not apply"; rm -rf $D; exit 2; }
for c in "$@"; do
  QKERAS_REPO=$D QKSTAT_EVIDENCE_DIR=$D/evidence PYTHONHASHSEED=0 timeout 3000 /venv/bin/python -m qkstat.check --property $c --tier ${TIER:-quick} | grep -E "^FINDING|^ANALYSIS|^VIOLATION|tier=" | cut -c1-${W:-600}
done
rm -rf $D
