#!/bin/bash
# Developer tool: evaluate round-N seeds delivered in /tmp/seed/w10-<id>/SEED
for id in "$@"; do
  mkdir -p /tmp/seed/out10/$id
  cp /tmp/seed/w10-$id/SEED/patch.diff /tmp/seed/w10-$id/SEED/demo.py /tmp/seed/w10-$id/SEED/meta.json /tmp/seed/out10/$id/ || { echo "$id: SEED files missing"; continue; }
  timeout 6000 /verif/tools/eval_seed.sh /tmp/seed/out10/$id $id-seed10 > /dev/shm/eval10-$id.log 2>&1
  echo "== $id"; grep -E "demo rc|REPORTED BY|stable_pass|^FINDING|^ANALYSIS|PATCH DOES NOT" /dev/shm/eval10-$id.log | cut -c1-300
done
