"""Developer tool (never run by a check): merge triaged findings into
/verif/known_findings.json.  Input: finding dumps produced with
QKSTAT_DUMP=<file> and the triage table below (one entry per construct that
was replayed against the real code or argued from the code path).  Findings
that are not in the triage table are NOT added."""
import glob
import json
import os
import sys

HERE = os.path.dirname(os.path.abspath(__file__))
sys.path.insert(0, os.path.dirname(HERE))
from triage import TRIAGE  # noqa

dumps = sys.argv[1] if len(sys.argv) > 1 else "/dev/shm/dump"
merged = {}
for path in sorted(glob.glob(os.path.join(dumps, "*.json"))):
  try:
    data = json.load(open(path))
  except Exception:
    continue
  if not isinstance(data, list):
    continue
  for f in data:
    k = (f["property"], f["rule"], f["unit"], f["construct"])
    e = merged.setdefault(k, {"instances": [], "message": f["message"],
                              "loc": f.get("loc")})
    for i in f.get("instances") or []:
      if i not in e["instances"]:
        e["instances"].append(i)

out = []
missing = []
for k, e in sorted(merged.items()):
  t = TRIAGE.get(k)
  if t is None:
    missing.append(k)
    continue
  entry = {"status": t.get("status", "known"), "property": k[0], "rule": k[1],
           "unit": k[2], "construct": k[3], "what_fails": t["what_fails"],
           "replayed": t["replayed"]}
  if t.get("commit"):
    entry["commit"] = t["commit"]
  if e["instances"]:
    entry["instances"] = sorted(e["instances"])
  out.append(entry)
# fixed entries are kept even when the finding no longer occurs
for k, t in sorted(TRIAGE.items()):
  if t.get("status") == "fixed" and k not in merged:
    out.append({"status": "fixed", "property": k[0], "rule": k[1],
                "unit": k[2], "construct": k[3],
                "what_fails": t["what_fails"], "replayed": t["replayed"],
                "commit": t.get("commit", "")})
json.dump({"findings": out}, open(os.path.join(os.path.dirname(HERE),
                                               "known_findings.json"), "w"),
          indent=1, sort_keys=True)
print("known findings written:", len(out))
for k in missing:
  print("UNTRIAGED", k)
