#!/bin/bash
# Developer tool: evaluate round-N seeds delivered in /tmp/seed/w17-<id>/SEED
for id in "$@"; do
  mkdir -p /tmp/seed/out17/$id
  cp /tmp/seed/w17-$id/SEED/patch.diff /tmp/seed/w17-$id/SEED/demo.py /tmp/seed/w17-$id/SEED/meta.json /tmp/seed/out17/$id/ || { echo "$id: SEED files missing"; continue; }
  timeout 6000 /verif/tools/eval_seed.sh /tmp/seed/out17/$id $id-seed17 > /dev/shm/eval17-$id.log 2>&1
  echo "== $id"; grep -E "demo rc|REPORTED BY|stable_pass|^FINDING|^ANALYSIS|PATCH DOES NOT" /dev/shm/eval17-$id.log | cut -c1-300
done
