#!/bin/bash
# Developer tool: evaluate round-N seeds delivered in /tmp/seed/w19-<id>/SEED
for id in "$@"; do
  mkdir -p /tmp/seed/out19/$id
  cp /tmp/seed/w19-$id/SEED/patch.diff /tmp/seed/w19-$id/SEED/demo.py /tmp/seed/w19-$id/SEED/meta.json /tmp/seed/out19/$id/ || { echo "$id: SEED files missing"; continue; }
  timeout 6000 /verif/tools/eval_seed.sh /tmp/seed/out19/$id $id-seed19 > /dev/shm/eval19-$id.log 2>&1
  echo "== $id"; grep -E "demo rc|REPORTED BY|stable_pass|^FINDING|^ANALYSIS|PATCH DOES NOT" /dev/shm/eval19-$id.log | cut -c1-300
done
