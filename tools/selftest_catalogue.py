"""Catalogue of the self-test: mutants (each must be reported by at least one
of the named properties) and benign variants (must stay silent).  Edits are
exact-text replacements in a scratch copy; an edit that no longer applies is
reported as EDIT-ERROR (the catalogue must follow the tree)."""
import os


Q = "qkeras/quantizers.py"
U = "qkeras/utils.py"
QO = "qkeras/qtools/quantized_operators/"


def E(file, old, new, **kw):
  d = dict(file=file, old=old, new=new)
  d.update(kw)
  return d


MUTANTS = {
    "m01_bits_clip_upper_bound": dict(expect=["C01", "C02"], edits=[E(
        Q, "self.keep_negative  * (-m + self.symmetric), m - 1) / m",
        "self.keep_negative  * (-m + self.symmetric), m) / m")]),
    "m02_round_through_floor": dict(expect=["C02", "C06"], edits=[E(
        Q, "    output = x + tf.stop_gradient(-x + tf.round(x))\n  return "
        "output", "    output = x + tf.stop_gradient(-x + tf.floor(x))\n  "
        "return output")]),
    "m03_round_through_no_ste": dict(expect=["C06"], edits=[E(
        Q, "    output = x + tf.stop_gradient(-x + tf.round(x))\n  return "
        "output", "    output = tf.round(x)\n  return output")]),
    "m04_bits_symmetric_dropped": dict(expect=["C01", "C02"], edits=[E(
        Q, "self.keep_negative  * (-m + self.symmetric), m - 1) / m",
        "self.keep_negative  * (-m), m - 1) / m")]),
    "m05_relu_nonste_keeps_full_x": dict(expect=["C07", "C06"], edits=[E(
        Q, "      return (1 - self.qnoise_factor) * x_u + tf.stop_gradient(",
        "      return x_u + tf.stop_gradient(")]),
    "m06_stochastic_round_flipped": dict(expect=["C08"], edits=[E(
        Q, "fraction < tf.random.uniform(tf.shape(x))",
        "fraction > tf.random.uniform(tf.shape(x))")]),
    "m07_round_through_always_random": dict(expect=["C08"], edits=[E(
        Q, "    output = tf_utils.smart_cond(\n        K.learning_phase(),\n"
        "        lambda: x + tf.stop_gradient(-x + stochastic_round(x, "
        "precision)),\n        lambda: x + tf.stop_gradient(-x + "
        "tf.round(x)))",
        "    output = x + tf.stop_gradient(-x + stochastic_round(x, "
        "precision))")]),
    "m08_relu_config_key_deleted": dict(expect=["C09"], edits=[E(
        Q, '        "negative_slope":\n            self.negative_slope,\n'
        '        "use_stochastic_rounding":\n            '
        'self.use_stochastic_rounding,\n        "relu_upper_bound"',
        '        "use_stochastic_rounding":\n            '
        'self.use_stochastic_rounding,\n        "relu_upper_bound"')]),
    "m09_ternary_printer_keyword": dict(expect=["C10"], edits=[E(
        Q, '      flags.append("threshold=" + str(self.threshold))\n    if '
        'self.use_stochastic_rounding:\n      flags.append(\n          '
        '"use_stochastic_rounding="',
        '      flags.append("thresh=" + str(self.threshold))\n    if '
        'self.use_stochastic_rounding:\n      flags.append(\n          '
        '"use_stochastic_rounding="')]),
    "m10_po2_max_exponent": dict(expect=["C03"], edits=[E(
        Q, "  max_exp = 2**(effect_bits) - 1\n", "  max_exp = "
        "2**(effect_bits)\n")]),
    "m11_po2_zero_sign": dict(expect=["C03"], edits=[E(
        Q, "    x_sign = tf.sign(x)\n    x_sign += (1.0 - tf.abs(x_sign))\n",
        "    x_sign = tf.sign(x)\n")]),
    "m12_binary_01_codes": dict(expect=["C04"], edits=[E(
        Q, "    if self.use_01:\n      k_sign = (k_sign + 1.0) / 2.0\n",
        "    if self.use_01:\n      k_sign = (k_sign + 1.0)\n")]),
    "m13_ternary_threshold_flipped": dict(expect=["C04"], edits=[E(
        Q, "        thres = self.threshold\n      q = K.cast(tf.abs(x) >= "
        "thres, K.floatx()) * tf.sign(x)",
        "        thres = self.threshold\n      q = K.cast(tf.abs(x) <= "
        "thres, K.floatx()) * tf.sign(x)")]),
    "m14_bits_auto_levels": dict(expect=["C05"], edits=[E(
        Q, "levels = (2**(self.bits-1)-1) * 2 if self.symmetric else "
        "(2**self.bits)-1",
        "levels = (2**(self.bits-1)) * 2 if self.symmetric else "
        "(2**self.bits)-1")]),
    "m15_relu_surrogate_is_x": dict(expect=["C06", "C07"], edits=[E(
        Q, "      return x_u + tf.stop_gradient(self.qnoise_factor * (-x_u + "
        "xq))", "      return x + tf.stop_gradient(self.qnoise_factor * (-x "
        "+ xq))")]),
    "m16_linear_clip_max_half": dict(expect=["C01", "C02"], edits=[E(
        Q, "clip_max = unsigned_bits_po2 - K.cast_to_floatx(1.0)",
        "clip_max = unsigned_bits_po2 - K.cast_to_floatx(0.5)")]),
    "m17_getarg_num_as_string": dict(expect=["C10"], edits=[E(
        "qkeras/safe_eval.py", "  elif IsNum(s):\n    return Num(s)",
        "  elif IsNum(s):\n    return Str(s)")]),
    "m18_getparams_no_order_check": dict(expect=["C10"], edits=[E(
        "qkeras/safe_eval.py",
        "    if (len(items[i]) == 1) and (len(items[i-1]) == 2):",
        "    if False:")]),
    "m19_get_quantizer_eval": dict(expect=["C10"], edits=[E(
        Q, "    return safe_eval(identifier, globals())",
        "    return eval(identifier)")]),
    "m20_schedule_decreasing": dict(expect=["C07"], edits=[E(
        "qkeras/callbacks.py",
        "qnoise_factor = 1.0 - np.power(val, self.exponent)",
        "qnoise_factor = np.power(val, self.exponent)")]),
    "m21_scheduler_skips_increment": dict(expect=["C07"], edits=[E(
        "qkeras/callbacks.py",
        "    if freq % self.update_freq != 0:\n      self.num_iters += 1\n"
        "      return", "    if freq % self.update_freq != 0:\n      return")]),
    "m22_config_precedence_swapped": dict(expect=["C12"], edits=[E(
        U, '  quantizer = quantizer_config.get(layer["config"]["name"],\n'
        '                                   quantizer_config.get(layer_class,'
        ' None))',
        '  quantizer = quantizer_config.get(layer_class,\n'
        '                                   quantizer_config.get(\n'
        '                                       layer["config"]["name"], '
        'None))')]),
    "m23_biasless_gets_bias_quantizer": dict(expect=["C12"], edits=[E(
        U, '      if layer_config["use_bias"]:\n        bias_quantizer = '
        'get_config(\n            quantizer_config, layer, q_name, '
        '"bias_quantizer")\n      else:\n        bias_quantizer = None\n',
        '      bias_quantizer = get_config(\n          quantizer_config, '
        'layer, q_name, "bias_quantizer")\n')]),
    "m24_custom_object_removed": dict(expect=["C13"], edits=[E(
        U, '  custom_objects["QConv1D"] = QConv1D\n', "")]),
    "m25_export_scales_not_appended": dict(expect=["C14"], edits=[E(
        U, "          signs.append(sign)\n          scales.append([])\n",
        "          signs.append(sign)\n")]),
    "m26_bn_fusing_no_epsilon": dict(expect=["C14"], edits=[E(
        U, "inv = gamma * math_ops.rsqrt(variance + bn_layer.epsilon)",
        "inv = gamma * math_ops.rsqrt(variance)")]),
    "m28_clone_mutates_caller_dict": dict(expect=["C13"], edits=[E(
        U, "  custom_objects = copy.deepcopy(custom_objects)\n\n  "
        "_add_supported_quantized_objects(custom_objects)\n\n  json_string = "
        "model.to_json()",
        "  _add_supported_quantized_objects(custom_objects)\n\n  json_string "
        "= model.to_json()")]),
    "m29_qdense_bias_unquantized": dict(expect=["C11"], edits=[E(
        "qkeras/qlayers.py",
        "        quantized_bias = self.bias_quantizer_internal(self.bias)\n"
        "      else:\n        quantized_bias = self.bias\n      output = "
        "tf.keras.backend.bias_add(output, quantized_bias,",
        "        quantized_bias = self.bias\n"
        "      else:\n        quantized_bias = self.bias\n      output = "
        "tf.keras.backend.bias_add(output, quantized_bias,")]),
    "m30_qconv1d_dilation_dropped": dict(expect=["C11"], edits=[E(
        "qkeras/qconvolutional.py",
        "        dilation_rate=self.dilation_rate[0])",
        "        dilation_rate=1)")]),
    "m31_separable_quantizers_swapped": dict(expect=["C11"], edits=[E(
        "qkeras/qconvolutional.py",
        "      quantized_pointwise_kernel = self.pointwise_quantizer_internal"
        "(\n          self.pointwise_kernel)",
        "      quantized_pointwise_kernel = self.depthwise_quantizer_internal"
        "(\n          self.pointwise_kernel)")]),
    "m32_folded_weights_no_epsilon": dict(expect=["C15"], edits=[E(
        "qkeras/qconv2d_batchnorm.py",
        "    inv = math_ops.rsqrt(moving_variance + self.batchnorm.epsilon)",
        "    inv = math_ops.rsqrt(moving_variance)")]),
    "m33_folded_bias_sign": dict(expect=["C15"], edits=[E(
        "qkeras/qconv2d_batchnorm.py",
        "      folded_bias = inv * (bias - new_mean) + beta",
        "      folded_bias = inv * (bias + new_mean) + beta")]),
    "m34_multiplier_table_cell": dict(expect=["C16"], edits=[E(
        QO + "multiplier_factory.py",
        "            (multiplier_impl.Shifter, quantizer_impl.QuantizedBits"
        "()),\n            (multiplier_impl.Mux, quantizer_impl.QuantizedBits"
        "()),",
        "            (multiplier_impl.Mux, quantizer_impl.QuantizedBits"
        "()),\n            (multiplier_impl.Mux, quantizer_impl.QuantizedBits"
        "()),")]),
    "m35_fixed_multiplier_int_bits_max": dict(expect=["C16"], edits=[E(
        QO + "multiplier_impl.py",
        "    self.output.int_bits = self.input.int_bits + "
        "self.weights.int_bits",
        "    self.output.int_bits = max(self.input.int_bits, "
        "self.weights.int_bits)")]),
    "m36_accumulator_floor_log2": dict(expect=["C17"], edits=[E(
        QO + "accumulator_impl.py",
        "self.log_add_ops = int(np.ceil(np.log2(add_ops)))",
        "self.log_add_ops = int(np.floor(np.log2(add_ops)))")]),
    "m37_adder_no_carry_bit": dict(expect=["C17"], edits=[E(
        QO + "adder_impl.py",
        "    self.output.int_bits = max(quantizer_1.int_bits,\n"
        "                               quantizer_2.int_bits) + 1",
        "    self.output.int_bits = max(quantizer_1.int_bits,\n"
        "                               quantizer_2.int_bits)")]),
    "m38_conv2d_count_drops_cin": dict(expect=["C19"], edits=[E(
        "qkeras/qtools/qtools_util.py",
        "    operation_count = (\n        height_o * width_o * channels_o * "
        "kernel_h * kernel_w * channels_i)",
        "    operation_count = (\n        height_o * width_o * channels_o * "
        "kernel_h * kernel_w)")]),
    "m39_total_energy_drops_op_cost": dict(expect=["C19"], edits=[E(
        "qkeras/qtools/qenergy/qenergy.py",
        "    total_energy += (input_rd_energy + output_wr_energy +\n"
        "                     parameter_rd_energy + energy_op)",
        "    total_energy += (input_rd_energy + output_wr_energy +\n"
        "                     parameter_rd_energy)")]),
    "m40_bias_adder_ignores_bias": dict(expect=["C18"], edits=[E(
        "qkeras/qtools/generate_layer_data_type_map.py",
        "        accumulator = bias_accumulator_instance.make_quantizer(\n"
        "            kernel_accumulator.output, bias_quantizer)\n      if "
        "debug:",
        "        accumulator = bias_accumulator_instance.make_quantizer(\n"
        "            kernel_accumulator.output, kernel_accumulator.output)\n"
        "      if debug:")]),
    "m41_autoqkeras_limit_flipped": dict(expect=["C20"], edits=[E(
        "qkeras/autoqkeras/autoqkeras_internal.py",
        "          if value <= self.limit[name][index]",
        "          if value >= self.limit[name][index]")]),
    "m42_forgiving_factor_inverted": dict(expect=["C20"], edits=[E(
        "qkeras/autoqkeras/forgiving_metrics/forgiving_factor.py",
        "        self.delta_p * (np.log(self.reference_size/self.trial_size)"
        " /", "        self.delta_p * (np.log(self.trial_size/"
        "self.reference_size) /")]),
    "m43_autoqkeras_bias_limit_index": dict(expect=["C20"], edits=[E(
        "qkeras/autoqkeras/autoqkeras_internal.py",
        '      bq = self.quantization_config["bias"]\n      index = 1',
        '      bq = self.quantization_config["bias"]\n      index = 0')]),
    "m44_scheduler_reads_only_quantizer": dict(expect=["C07"], edits=[E(
        "qkeras/callbacks.py", '      for attr in ["quantizers", '
        '"quantizer"]:', '      for attr in ["quantizer"]:')]),
    "m45_po2_relu_negative_sign": dict(expect=["C03"], edits=[E(
        Q, "        pow(2.0, x_pos_clipped), -pow(2.0, x_neg_clipped))",
        "        pow(2.0, x_pos_clipped), pow(2.0, x_neg_clipped))")]),
    "m46_least_squares_axes": dict(expect=["C04"], edits=[E(
        Q, "    qq = K.mean(tf.math.multiply(q, q), axis=axis, "
        "keepdims=True)\n  return qx, qq",
        "    qq = K.mean(tf.math.multiply(q, q), keepdims=True)\n  return "
        "qx, qq")]),
    "m47_linear_scale_not_detached": dict(expect=["C05", "C06"], edits=[E(
        Q, "    self.quantization_scale = tf.stop_gradient("
        "quantization_scale)", "    self.quantization_scale = "
        "quantization_scale")]),
    "m48_registry_name": dict(expect=["C09"], edits=[E(
        "qkeras/registry.py", "      name = item.__name__\n",
        "      name = item.__name__.lower() + \"_\"\n")]),
    "m49_mux_sign_rule": dict(expect=["C16"], edits=[E(
        QO + "multiplier_impl.py",
        "    self.output.is_signed = self.input.is_signed | "
        "self.weights.is_signed\n\n    if any(s in weight_quantizer.name",
        "    self.output.is_signed = self.input.is_signed & "
        "self.weights.is_signed\n\n    if any(s in weight_quantizer.name")]),
    "m50_extract_energy_sum_default": dict(expect=["C19"], edits=[E(
        "qkeras/qtools/run_qtools.py",
        "      value += sum([energy_dict[layer][\"energy\"][key] for key in "
        "keys])",
        "      value += sum([energy_dict[layer][\"energy\"][key] for key in "
        "keys[:1]])")]),
    "m51_input_io_placement_flipped": dict(expect=["C19"], edits=[E(
        "qkeras/qtools/qenergy/qenergy.py",
        '  if is_input_layer:\n    if rd_wr_on_io:\n      mode = "dram"\n'
        '    else:\n      mode = "sram"\n',
        '  if is_input_layer:\n    if rd_wr_on_io:\n      mode = "sram"\n'
        '    else:\n      mode = "dram"\n')]),
    "m52_write_dram_skips_sram_read": dict(expect=["C19"], edits=[E(
        "qkeras/qtools/qenergy/qenergy.py",
        '  if mode == "dram":\n    # load input from dram; wx_sizes[1]-> '
        'input x quantizer bits\n    if rd_wr_on_io:\n',
        '  if mode == "dram":\n    # load input from dram; wx_sizes[1]-> '
        'input x quantizer bits\n    if not rd_wr_on_io:\n')]),
    "m53_clone_only_trainable_weights": dict(expect=["C13"], edits=[E(
        U, "  qmodel.set_weights(model.get_weights())\n\n  return qmodel",
        "  for layer, qlayer in zip(model.layers, qmodel.layers):\n"
        "    if layer.trainable_weights:\n"
        "      qlayer.set_weights(layer.get_weights())\n\n  return qmodel")]),
    "m54_get_exp_truncates_log2": dict(expect=["C18"], edits=[E(
        QO + "quantizer_impl.py",
        "      max_exp = math.ceil(np.log2(quantizer.max_val_po2))",
        "      max_exp = int(np.log2(quantizer.max_val_po2))")]),
    "m55_get_exp_ignores_small_max_value": dict(expect=["C18"], edits=[E(
        QO + "quantizer_impl.py",
        "  if 0 < quantizer.max_val_po2 <= 1:\n    exp_bits = non_sign_bits",
        "  if 0 < quantizer.max_val_po2 < 1:\n    exp_bits = non_sign_bits")]),
    "m56_grouped_conv_raw_kernel": dict(expect=["C11"], edits=[E(
        "qkeras/qconvolutional.py",
        "      outputs = self._jit_compiled_convolution_op(\n"
        "          inputs, tf.convert_to_tensor(quantized_kernel)",
        "      outputs = self._jit_compiled_convolution_op(\n"
        "          inputs, tf.convert_to_tensor(self.kernel)")]),
    "m57_isnum_rejects_floats_with_exponent": dict(expect=["C10"], edits=[E(
        "qkeras/safe_eval.py",
        "    except ValueError:\n      float(s)\n      return True",
        "    except ValueError:\n      float(s)\n      return "
        "'e' not in s.lower()")]),
    "m58_global_pool_axes_from_raw_argument": dict(expect=["C11"], edits=[
        E("qkeras/qpooling.py",
          "    super().__init__(data_format=data_format, **kwargs)\n\n"
          "  def compute_pooling_area(self, input_shape):",
          "    self._spatial_axes = ((2, 3) if data_format == "
          "\"channels_first\"\n                          else (1, 2))\n"
          "    super().__init__(data_format=data_format, **kwargs)\n\n"
          "  def compute_pooling_area(self, input_shape):"),
        E("qkeras/qpooling.py",
          "      if self.data_format == \"channels_last\":\n"
          "        x = K.sum(inputs, axis=[1, 2], keepdims=self.keepdims)\n"
          "      else:\n"
          "        x = K.sum(inputs, axis=[2, 3], keepdims=self.keepdims)\n",
          "      x = K.sum(inputs, axis=list(self._spatial_axes),\n"
          "                keepdims=self.keepdims)\n")]),
    "m59_ternary_threshold_or_default": dict(expect=["C04"], edits=[E(
        Q, "      if self.threshold is None:\n        thres = "
        "self.default_threshold\n      else:\n        thres = "
        "self.threshold\n      q = K.cast(tf.abs(x) >= thres",
        "      thres = self.threshold or self.default_threshold\n"
        "      q = K.cast(tf.abs(x) >= thres")]),
    "m60_fusing_pair_single_consumer_dropped": dict(expect=["C14"], edits=[E(
        U, '          "QConv2D", "QDepthwiseConv2D"\n      ] and is_single '
        'and followed_by_bn',
        '          "QConv2D", "QDepthwiseConv2D"\n      ] and '
        'followed_by_bn')]),
    "m61_fold_single_consumer_dropped": dict(expect=["C15"], edits=[E(
        U, '          "Conv2D", "DepthwiseConv2D"\n      ] and is_single and '
        'followed_by_bn',
        '          "Conv2D", "DepthwiseConv2D"\n      ] and followed_by_bn')]),
    "m62_stochastic_ternary_not_a_mux_select": dict(expect=["C16"], edits=[E(
        QO + "multiplier_impl.py",
        'if any(s in weight_quantizer.name for s in ["binary", "ternary"]):',
        'if weight_quantizer.name in ("binary", "ternary"):')]),
    "m63_auto_po2_fraction_uses_max_shift": dict(expect=["C18"], edits=[E(
        "qkeras/qtools/qtools_util.py",
        "      max_fractional_bits = bits - int_bits - min_shift",
        "      max_fractional_bits = bits - int_bits - max_shift")]),
    "m64_fused_accumulator_adjusts_original": dict(expect=["C18"], edits=[E(
        "qkeras/qtools/qtools_util.py",
        "  fused_multiplier = copy.deepcopy(multiplier)",
        "  fused_multiplier = multiplier")]),
    "m65_fused_accumulator_entry_plain": dict(expect=["C18"], edits=[E(
        "qkeras/qtools/generate_layer_data_type_map.py",
        "          fused_accumulator = qtools_util."
        "adjust_accumulator_for_auto_po2(\n              layer, multiplier, "
        "qkeras_weight_quantizer, bias_quantizer)",
        "          fused_accumulator = qtools_util."
        "adjust_accumulator_for_auto_po2(\n              layer, multiplier, "
        "qkeras_weight_quantizer, None)")]),
    "m66_qactivation_edge_gets_string": dict(expect=["C18"], edits=[E(
        "qkeras/qtools/qgraph.py",
        "          result = layer.quantizer\n",
        "          result = layer.activation\n")]),
    "m67_only_last_edge_updated": dict(expect=["C18"], edits=[E(
        "qkeras/qtools/qgraph.py",
        "      graph[u][v][\"quantizer\"] = result\n      # all "
        "edge_quantizer is the same for all edges starting\n      # from "
        "current vertex to different nodes\n      graph.nodes[vertex]"
        "[\"out_quantizer\"] = result\n",
        "    graph[u][v][\"quantizer\"] = result\n    # all "
        "edge_quantizer is the same for all edges starting\n    # from "
        "current vertex to different nodes\n    graph.nodes[vertex]"
        "[\"out_quantizer\"] = result\n")]),
    "m68_act_size_softmax_uses_input_bits": dict(expect=["C20"], edits=[E(
        "qkeras/autoqkeras/forgiving_metrics/forgiving_bits.py",
        "        if is_softmax:\n          bits = o_size\n",
        "        if is_softmax:\n          bits = i_size\n")]),
    "m69_activation_total_ignores_selection": dict(expect=["C20"], edits=[E(
        "qkeras/autoqkeras/forgiving_metrics/forgiving_bits.py",
        "        a_size += a_weight * activations\n",
        "        a_size += activations\n")]),
    "m70_score_penalises_instead_of_rewarding": dict(expect=["C20"], edits=[E(
        "qkeras/autoqkeras/autoqkeras_internal.py",
        "      return K.cast(metric * (1.0 + delta), K.floatx())",
        "      return K.cast(metric * (1.0 - delta), K.floatx())")]),
    "m71_frozen_scale_not_divided_by_m": dict(expect=["C14", "C05"], edits=[E(
        Q, "        scale = self.scale / m\n", "        scale = self.scale\n")]),
    "m72_freeze_helper_stores_other_scale": dict(expect=["C14"], edits=[E(
        U, '      q_cfg["post_training_scale"] = q.scale.numpy()\n',
        '      q_cfg["post_training_scale"] = q.scale.numpy() * 2\n')]),
    "m73_freeze_depthwise_under_kernel_key": dict(expect=["C14"], edits=[E(
        U, '      layer_cfg["depthwise_quantizer"][\n          "config"] = '
        'depthwise_quantizer.get_config()',
        '      layer_cfg["kernel_quantizer"][\n          "config"] = '
        'depthwise_quantizer.get_config()')]),
    "m74_group_scale_tiled_instead_of_repeated": dict(
        expect=["C04", "C05"], edits=[E(
            Q, "  return tf.repeat(x, repeats=repeats, axis=axis)\n",
            "  shape = x.shape.as_list()\n  multiples = [1] * (len(shape) + "
            "1)\n  multiples[axis] = repeats\n  shape[axis] *= repeats\n"
            "  return tf.reshape(tf.tile(tf.expand_dims(x, axis), multiples),"
            " shape)\n")]),
    "m75_range_step_from_floored_max": dict(expect=["C01"], edits=[E(
        Q, "    return p_and_n * np.array(\n        K.pow(2.0, -self.bits + "
        "K.cast(self.integer, dtype=\"float32\") + 1),\n        "
        "dtype=\"float32\")",
        "    return p_and_n * np.array(\n        self.max() / 2.0 ** ("
        "self.bits - 1), dtype=\"float32\")")]),
    "m76_merge_energy_counts_all_inputs": dict(expect=["C19"], edits=[E(
        "qkeras/qtools/qenergy/qenergy.py", "      energy_op = (number_of_inputs - 1) * operation_count * "
        "gate_factor * OP[", "      energy_op = number_of_inputs * "
        "operation_count * gate_factor * OP[")]),
    "m77_bias_read_uses_weight_bits": dict(expect=["C19"], edits=[E(
        "qkeras/qtools/qenergy/qenergy.py", "          False, bias_shapes, weights_on_memory, "
        "min_sram_size, rd_wr_on_io,\n          bias_quantizer.bits, "
        "is_tensor=False", "          False, bias_shapes, weights_on_memory, "
        "min_sram_size, rd_wr_on_io,\n          weight_quantizer.bits, "
        "is_tensor=False")]),
    "m78_output_write_uses_activation_memory_flag": dict(expect=["C19"],
                                                         edits=[E(
        "qkeras/qtools/qenergy/qenergy.py", "    output_wr_energy = memory_write_energy(\n        "
        "is_output_layer, output_shapes,", "    output_wr_energy = "
        "memory_write_energy(\n        is_input_layer, output_shapes,")]),
    "m79_pool_multiplier_output_not_input_type": dict(expect=["C18"], edits=[E(
        "qkeras/qtools/generate_layer_data_type_map.py", "      fake_multiplier.output = input_quantizer\n", "")]),
    "m80_quantized_pool_reports_accumulator": dict(expect=["C18"], edits=[E(
        "qkeras/qtools/generate_layer_data_type_map.py", "        # If is quantized layer, last operation is multiply "
        "(averaging).\n        layer_quantizer = multiplier.output",
        "        # If is quantized layer, last operation is multiply "
        "(averaging).\n        layer_quantizer = accumulator.output")]),
    "m81_activation_arm_reports_activation_attr": dict(expect=["C18"], edits=[E(
        "qkeras/qtools/generate_layer_data_type_map.py", "      else:\n        layer_quantizer = layer.quantizer\n\n"
        "        if not quantizer_factory.is_quantizer_supported(",
        "      else:\n        layer_quantizer = layer.activation\n\n"
        "        if not quantizer_factory.is_quantizer_supported(")]),
    "m82_estimator_positive_sum_without_bias": dict(expect=["C18"], edits=[E(
        "qkeras/estimate.py",
        "        n1 = npp * (x_max > 0) * x_max + nnn * (x_min < 0) * x_min "
        "+ b[i]\n",
        "        n1 = npp * (x_max > 0) * x_max + nnn * (x_min < 0) * x_min"
        "\n")]),
    "m83_estimator_max_over_signed_sums": dict(expect=["C18"], edits=[E(
        "qkeras/estimate.py",
        "        n0 = - (nnn * (x_max > 0) * x_max + npp * (x_min < 0) * "
        "x_min + b[i])\n",
        "        n0 = (nnn * (x_max > 0) * x_max + npp * (x_min < 0) * "
        "x_min + b[i])\n")]),
    "m84_causal_pad_on_the_right": dict(expect=["C11"], edits=[E(
        "qkeras/qconvolutional.py",
        "    outputs = tf.keras.backend.conv1d(\n        inputs,\n        "
        "quantized_kernel,\n        strides=self.strides[0],\n        "
        "padding=self.padding,\n",
        "    op_padding = self.padding\n    if self.padding == \"causal\":\n"
        "      pad = self.dilation_rate[0] * (self.kernel_size[0] - 1)\n"
        "      inputs = array_ops.pad(inputs, [[0, 0], [0, pad], [0, 0]])\n"
        "      op_padding = \"valid\"\n"
        "    outputs = tf.keras.backend.conv1d(\n        inputs,\n        "
        "quantized_kernel,\n        strides=self.strides[0],\n        "
        "padding=op_padding,\n")]),
    "m85_sample_ranges_names_skip_conv1d": dict(expect=["C18"], edits=[E(
        "qkeras/estimate.py",
        "  layer_names = [\n      layer.name for layer in model.layers\n"
        "      if (isinstance(layer, QDepthwiseConv2D) or isinstance(layer, "
        "QConv2D) or\n          isinstance(layer, QConv1D) or "
        "isinstance(layer, QDense))\n  ]\n",
        "  layer_names = [\n      layer.name for layer in model.layers\n"
        "      if (isinstance(layer, QDepthwiseConv2D) or isinstance(layer, "
        "QConv2D) or\n          isinstance(layer, QDense))\n  ]\n")]),
    "m86_sampled_size_from_signed_max": dict(expect=["C18"], edits=[E(
        "qkeras/estimate.py",
        "      max_value = np.amax(np.abs(value))\n",
        "      max_value = np.amax(value)\n")]),
    "m87_train_begin_always_resets_quantizers": dict(expect=["C07"], edits=[E(
        "qkeras/callbacks.py",
        "    if not self.quantizers:\n      # Build a list",
        "    if True:\n      # Build a list")]),
    "m88_scheduler_skips_none_and_rest_of_list": dict(expect=["C07"], edits=[E(
        "qkeras/callbacks.py",
        "          for quantizer in quantizers:\n            if hasattr("
        "quantizer, \"qnoise_factor\"):\n              all_quantizers."
        "append(quantizer)\n",
        "          for quantizer in quantizers:\n            if quantizer is "
        "None:\n              break\n            if hasattr("
        "quantizer, \"qnoise_factor\"):\n              all_quantizers."
        "append(quantizer)\n")]),
    "m89_frozen_model_gets_exported_weights": dict(expect=["C14"], edits=[E(
        U, "  new_model.set_weights(orig_model.get_weights())\n",
        "  new_model.set_weights(quantized_model.get_weights())\n")]),
    "m90_freeze_exports_the_original_model": dict(expect=["C14"], edits=[E(
        U, "  orig_hw_weights = model_save_quantized_weights(\n"
        "      quantized_model)\n",
        "  orig_hw_weights = model_save_quantized_weights(\n"
        "      orig_model)\n  quantized_model = orig_model\n")]),
    "m91_frozen_quantizer_kept_from_previous_layer": dict(
        expect=["C14"], edits=[
            E(U, "  for layer in quantized_model.layers[1:]:\n"
              "    layer_class = layer.__class__.__name__\n",
              "  auto_po2_quantizer_with_frozen_scale = None\n"
              "  for layer in quantized_model.layers[1:]:\n"
              "    layer_class = layer.__class__.__name__\n"),
            E(U, "    auto_po2_quantizer_with_frozen_scale = (\n"
              "        _create_quantized_bits_with_post_training_scale("
              "auto_po2_quantizer))\n",
              "    if auto_po2_quantizer is not None:\n"
              "      auto_po2_quantizer_with_frozen_scale = (\n"
              "          _create_quantized_bits_with_post_training_scale(\n"
              "              auto_po2_quantizer))\n")]),
    "m92_removed_node_keeps_incoming_edge_attributes": dict(
        expect=["C18"], edits=[E(
            "qkeras/qtools/qgraph.py",
            "      graph.add_edges_from([(u, w, out_attr)])\n",
            "      graph.add_edges_from([(u, w, in_attr)])\n")]),
    "m93_input_quantizers_keyed_by_layer_order": dict(expect=["C18"], edits=[E(
        "qkeras/qtools/qgraph.py",
        "  for (idx, tensor) in enumerate(model.inputs):\n"
        "    input_quantizer_map[tensor.ref()] = input_quantizer_list[idx]\n",
        "  input_layers = [l for l in model.layers\n"
        "                  if l.__class__.__name__ == \"InputLayer\"]\n"
        "  for (idx, layer) in enumerate(input_layers):\n"
        "    input_quantizer_map[layer.output.ref()] = "
        "input_quantizer_list[idx]\n")]),
    "m94_po2_type_loses_cap_on_the_way_back": dict(expect=["C16"], edits=[E(
        QO + "quantizer_impl.py",
        "      return quantizers.quantized_po2(\n          bits=self.bits,\n"
        "          max_value=self.max_val_po2 if self.max_val_po2 >= 0 else "
        "None,\n",
        "      return quantizers.quantized_po2(\n          bits=self.bits,\n"
        "          max_value=self.max_val_po2 if self.max_val_po2 > 2 else "
        "None,\n")]),
    # pooling arm: the activation quantizer of the pooling entry is looked
    # up under the wrong class name
    "m96_pooling_activation_from_other_entry": dict(expect=["C12"], edits=[
        E(U,
          "      # Adds activation to config.\n"
          "      quantizer = get_config(\n"
          "          quantizer_config, layer, q_name, "
          "\"activation_quantizer\")\n\n"
          "      if quantizer:\n        layer_config[\"activation\"] = "
          "quantizer\n      else:\n        quantize_activation("
          "layer_config, activation_bits)\n\n    registered_name",
          "      # Adds activation to config.\n"
          "      quantizer = get_config(\n"
          "          quantizer_config, layer, \"QAveragePooling2D\", "
          "\"activation_quantizer\")\n\n"
          "      if quantizer:\n        layer_config[\"activation\"] = "
          "quantizer\n      else:\n        quantize_activation("
          "layer_config, activation_bits)\n\n    registered_name")]),
    # the composite layer forgets its folding mode when serialised
    "m97_folded_layer_config_without_folding_mode": dict(
        expect=["C13"], edits=[
            E("qkeras/qconv2d_batchnorm.py",
              "    config = {\"ema_freeze_delay\": self.ema_freeze_delay,\n"
              "              \"folding_mode\": self.folding_mode}\n",
              "    config = {\"ema_freeze_delay\": self.ema_freeze_delay}\n"
              )]),
    # copy-and-paste slip in the per-process cost polynomials
    "m98_sram_cost_from_dram_entry": dict(expect=["C19"], edits=[
        E("qkeras/qtools/settings.py",
          "      self.sram_rd = np.poly1d(cfg_setting[process][\"sram_rd\"])",
          "      self.sram_rd = np.poly1d(cfg_setting[process][\"dram_rd\"])"
          )]),
    # the unfolded depthwise layer is built without the strides
    "m99_unfolded_layer_loses_strides": dict(expect=["C15"], edits=[
        E("qkeras/bn_folding_utils.py",
          "  new_layer_cfg[\"use_bias\"] = True\n",
          "  new_layer_cfg[\"use_bias\"] = True\n"
          "  new_layer_cfg.pop(\"strides\", None)\n")]),
    # QTools.pe hands the two placements over in the wrong order
    "m100_qtools_pe_swaps_placements": dict(expect=["C19"], edits=[
        E("qkeras/qtools/run_qtools.py",
          "        self._model, self._layer_map, weights_on_memory,\n"
          "        activations_on_memory, min_sram_size,\n",
          "        self._model, self._layer_map, activations_on_memory,\n"
          "        weights_on_memory, min_sram_size,\n")]),
    # the graph is built before the selected process is applied
    "m101_qtools_graph_before_process": dict(expect=["C19"], edits=[
        E("qkeras/qtools/run_qtools.py",
          "    cfg.update(process, config_settings)\n\n",
          ""),
        E("qkeras/qtools/run_qtools.py",
          "    # qgraph.PrintGraph(graph)\n",
          "    cfg.update(process, config_settings)\n")]),
    # Clip serialises its lower bound twice
    "m102_clip_config_loses_upper_bound": dict(expect=["C13"], edits=[
        E("qkeras/qlayers.py",
          "    return {\"min_value\": self.min_value, \"max_value\": "
          "self.max_value}\n",
          "    return {\"min_value\": self.min_value, \"max_value\": "
          "-self.min_value - 1}\n")]),
    # the default weight constraint clips inside the quantizer's range
    "m103_default_constraint_too_tight": dict(expect=["C13"], edits=[
        E("qkeras/qlayers.py",
          "    max_value = max(1, quantizer.max()) if hasattr(quantizer, "
          "\"max\") else 1.0\n",
          "    max_value = min(1, quantizer.max()) if hasattr(quantizer, "
          "\"max\") else 1.0\n")]),
    # a rebuilt QInitializer forgets to scale
    "m104_qinitializer_config_drops_use_scale": dict(expect=["C13"], edits=[
        E("qkeras/qlayers.py",
          "      'use_scale'   : config['use_scale'],\n",
          "      'use_scale'   : False,\n")]),
    # QConv2D reports its kernel quantizer as the bias quantizer too
    "m105_quantization_config_wrong_entry": dict(expect=["C10"], edits=[
        E("qkeras/qconvolutional.py",
          "        \"bias_quantizer\":\n            str("
          "self.bias_quantizer_internal),\n",
          "        \"bias_quantizer\":\n            str("
          "self.kernel_quantizer_internal),\n", matches=3, which=1)]),
    "m106_quantization_dictionary_by_class": dict(expect=["C10"], edits=[
        E("qkeras/autoqkeras/utils.py",
          "      q_dict[layer.name] = layer.get_quantization_config()\n",
          "      q_dict[layer.__class__.__name__] = "
          "layer.get_quantization_config()\n")]),
    # a pooling layer hands out a copy of its quantizer list without the
    # quantizer; a recurrent wrapper hands out the cell's list reversed
    "m107_pooling_reports_no_quantizer": dict(expect=["C11"], edits=[
        E("qkeras/qpooling.py",
          "  def get_quantizers(self):\n    return self.quantizers\n",
          "  def get_quantizers(self):\n    return self.quantizers[1:]\n",
          matches=2, which=0)]),
    "m108_rnn_reports_reversed_quantizers": dict(expect=["C11", "C14"],
                                                 edits=[
        E("qkeras/qrecurrent.py",
          "  def get_quantizers(self):\n    return self.cell.quantizers\n",
          "  def get_quantizers(self):\n    return self.cell.quantizers[::-1]"
          "\n", matches=3, which=1)]),
    # the report's fixed-point int_bits loses the sign bit it documents
    "m109_report_int_bits_without_sign": dict(expect=["C18"], edits=[
        E("qkeras/qtools/interface.py",
          "      mydict[\"int_bits\"] = quantizer.int_bits + "
          "quantizer.is_signed\n",
          "      mydict[\"int_bits\"] = quantizer.int_bits\n")]),
    # compound entries report the operand instead of the operator's output
    "m110_report_accumulator_entry_from_multiplier": dict(
        expect=["C18"], edits=[
            E("qkeras/qtools/interface.py",
              "      set_layer_item(layer_item, key=\"accumulator\", "
              "feature=feature,\n",
              "      set_layer_item(layer_item, key=\"multiplier\", "
              "feature=feature,\n                     "
              "output_key_name=\"accumulator\",\n")]),
    # the two percentages reach the base class in the wrong order
    "m111_forgiving_factor_deltas_swapped": dict(expect=["C20"], edits=[
        E("qkeras/autoqkeras/forgiving_metrics/forgiving_bits.py",
          "    super().__init__(delta_p, delta_n, rate)\n",
          "    super().__init__(delta_n, delta_p, rate)\n")]),
    # --- round 13 ---------------------------------------------------------
    # training arm of stochastic_binary: the deterministic code the scale is
    # fitted to keeps 0 for exact zeros (the zero -> +1 fix-up is dropped)
    "m112_stochastic_binary_scale_code_keeps_zero": dict(expect=["C04"],
                                                         edits=[
        E("qkeras/quantizers.py",
          "      q_non_stochastic += 1.0 - tf.abs(q_non_stochastic)\n",
          "")]),
    # the constant operand of an operator layer is looked up by substring
    "m113_tfoplambda_constant_by_substring": dict(expect=["C15"], edits=[
        E("qkeras/utils.py",
          "    if op_name == layer.name and class_name == \"TFOpLambda\":\n",
          "    if op_name in layer.name and class_name == \"TFOpLambda\":\n")]),
    # merge / reshape counts over every known dimension (fixed batch size)
    "m114_merge_count_includes_batch": dict(expect=["C19"], edits=[
        E("qkeras/qtools/qtools_util.py",
          "  if is_merge_layers(layer) or is_shape_alternation_layers(layer):\n"
          "    operation_count = np.prod(input_shape[1:])\n",
          "  if is_merge_layers(layer) or is_shape_alternation_layers(layer):\n"
          "    operation_count = np.prod(\n"
          "        [d for d in input_shape if d is not None])\n")]),
    # limit entries scanned from the last written to the first
    "m115_limit_entries_scanned_backwards": dict(expect=["C20"], edits=[
        E("qkeras/autoqkeras/autoqkeras_internal.py",
          "    for i, pattern in enumerate(self.limit):\n",
          "    for i, pattern in enumerate(reversed(list(self.limit))):\n")]),
    # the non-straight-through arm of quantized_relu_po2 forgets the
    # quantization-noise factor on the pass-through term
    "m116_relu_po2_non_ste_arm_drops_sign": dict(expect=["C03"], edits=[
        E("qkeras/quantizers.py",
          "      return (1 - self.qnoise_factor) * x + tf.stop_gradient(\n"
          "          self.qnoise_factor * xq)\n\n"
          "  def max(self):\n"
          "    \"\"\"Get the maximum value that quantized_relu_po2 can "
          "represent.\"\"\"\n",
          "      return (1 - self.qnoise_factor) * x + tf.stop_gradient(\n"
          "          self.qnoise_factor * tf.abs(xq))\n\n"
          "  def max(self):\n"
          "    \"\"\"Get the maximum value that quantized_relu_po2 can "
          "represent.\"\"\"\n")]),
    # --- round 14 ---------------------------------------------------------
    # ternary's own maximum under channels_first taken per index of the LAST
    # axis (every other statistic stays per index of axis 0)
    "m117_ternary_channels_first_axes": dict(expect=["C04"], edits=[
        E("qkeras/quantizers.py",
          "      elif K.image_data_format() == \"channels_last\":\n"
          "        axis = list(range(len_axis - 1))\n"
          "      else:\n"
          "        axis = list(range(1, len_axis))\n",
          "      else:\n"
          "        axis = list(range(len_axis - 1))\n", matches=2, which=0)]),
    "m118_dense_output_shape_second_axis": dict(expect=["C12"], edits=[
        E("qkeras/qlayers.py",
          "    output_shape[-1] = self.units\n",
          "    output_shape[1] = self.units\n")]),
    "m119_mask_reloaded_as_booleans": dict(expect=["C13"], edits=[
        E("qkeras/qconvolutional.py",
          "      mask = np.array(mask)\n",
          "      mask = np.array(mask, dtype=bool)\n")]),
    "m120_converted_01_binary_stays_signed": dict(expect=["C16"], edits=[
        E(QO + "quantizer_impl.py",
          "    if quantizer.use_01:\n"
          "      self.mode = 4\n"
          "      self.is_signed = 0\n",
          "    if quantizer.use_01:\n"
          "      self.mode = 4\n"
          "      self.is_signed = 1\n")]),
    "m121_fp16_multiplier_priced_as_fp32": dict(expect=["C19"], edits=[
        E("qkeras/qtools/qenergy/qenergy.py",
          "        \"mul\": lambda x: max(cfg.fp16_mul(x), 0)\n",
          "        \"mul\": lambda x: max(cfg.fp32_mul(x), 0)\n")]),
    "m122_trials_scale_the_reference_model": dict(expect=["C20"], edits=[
        E("qkeras/autoqkeras/autoqkeras_internal.py",
          "    model = clone_model(self.model, self.custom_objects)\n",
          "    model = self.model\n")]),
    "m123_hswish_printer_truncates_bound": dict(expect=["C10"], edits=[
        E("qkeras/quantizers.py",
          "        \"relu_upper_bound=\" + str(self.relu_upper_bound),\n",
          "        \"relu_upper_bound=\" + str(int(self.relu_upper_bound)),\n")]),
    # --- round 15 ---------------------------------------------------------
    # the depthwise arm of model_quantize runs the default activation
    # conversion also after a configured activation quantizer
    "m124_depthwise_arm_default_activation_always": dict(expect=["C12"],
                                                         edits=[
        E("qkeras/utils.py",
          "      quantizer = get_config(quantizer_config, layer, q_name,\n"
          "                             \"activation_quantizer\",)\n\n"
          "      if quantizer:\n"
          "        layer_config[\"activation\"] = quantizer\n"
          "      else:\n"
          "        quantize_activation(layer_config, activation_bits)\n",
          "      quantizer = get_config(quantizer_config, layer, q_name,\n"
          "                             \"activation_quantizer\",)\n\n"
          "      if quantizer:\n"
          "        layer_config[\"activation\"] = quantizer\n"
          "      quantize_activation(layer_config, activation_bits)\n")]),
    "m125_depthwise_transpose_drops_placeholders": dict(expect=["C14"],
                                                        edits=[
        E("qkeras/qdepthwise_conv2d_transpose.py",
          "    return [\n"
          "        self.depthwise_kernel_quantizer_internal,\n"
          "        self.bias_quantizer_internal,\n"
          "        self.depthwise_activation,\n"
          "    ]\n",
          "    return [q for q in (\n"
          "        self.depthwise_kernel_quantizer_internal,\n"
          "        self.bias_quantizer_internal,\n"
          "        self.depthwise_activation,\n"
          "    ) if q is not None]\n")]),
    "m126_quantized_conv_folded_without_arm": dict(expect=["C15"], edits=[
        E("qkeras/utils.py",
          "      is_foldable = layer.__class__.__name__ in [\n"
          "          \"Conv2D\", \"DepthwiseConv2D\"\n"
          "      ] and is_single and followed_by_bn\n",
          "      is_foldable = layer.__class__.__name__ in [\n"
          "          \"Conv2D\", \"DepthwiseConv2D\", \"QConv2D\"\n"
          "      ] and is_single and followed_by_bn\n")]),
    "m127_energy_reads_io_layers_by_name": dict(expect=["C19"], edits=[
        E("qkeras/qtools/qenergy/qenergy.py",
          "    is_input_layer = layer in input_layers\n",
          "    is_input_layer = layer.name in input_layers\n")]),
    # stochastic_binary omits the sibling's default temperature
    "m128_stochastic_binary_printer_siblings_default": dict(expect=["C10"],
                                                            edits=[
        E("qkeras/quantizers.py",
          "    if self.temperature != 6.0:\n"
          "      flags.append(\"temperature=\" + str(self.temperature))\n"
          "    if not self.use_real_sigmoid:\n"
          "      flags.append(\"use_real_sigmoid=\" + "
          "str(int(self.use_real_sigmoid)))\n"
          "    return \"stochastic_binary(\"",
          "    if self.temperature != 8.0:\n"
          "      flags.append(\"temperature=\" + str(self.temperature))\n"
          "    if not self.use_real_sigmoid:\n"
          "      flags.append(\"use_real_sigmoid=\" + "
          "str(int(self.use_real_sigmoid)))\n"
          "    return \"stochastic_binary(\"")]),
    # --- round 16 ---------------------------------------------------------
    # the registry resolves names case-insensitively by scanning the container
    "m129_registry_lookup_by_prefix": dict(expect=["C09"], edits=[
        E("qkeras/registry.py",
          "    return self._container[name]\n",
          "    for key, item in self._container.items():\n"
          "      if name.startswith(key):\n"
          "        return item\n"
          "    raise KeyError(name)\n")]),
    # operation counts remember the first kernel they saw for a layer name
    "m130_kernel_shape_remembered_by_layer_name": dict(expect=["C19"],
                                                       edits=[
        E("qkeras/qtools/qtools_util.py",
          "def get_operation_count(layer, input_shape):\n",
          "_SEEN_KERNELS = {}\n\n\n"
          "def _first_weight(layer):\n"
          "  if layer.name not in _SEEN_KERNELS:\n"
          "    _SEEN_KERNELS[layer.name] = layer.get_weights()[0]\n"
          "  return _SEEN_KERNELS[layer.name]\n\n\n"
          "def get_operation_count(layer, input_shape):\n"),
        E("qkeras/qtools/qtools_util.py",
          "    weight = layer.get_weights()[0]\n\n"
          "    kernel_h, kernel_w, _, _ = weight.shape\n",
          "    weight = _first_weight(layer)\n\n"
          "    kernel_h, kernel_w, _, _ = weight.shape\n")]),
    # quantized_relu_po2 decides straight-through versus weighted mixing in
    # its constructor
    "m131_relu_po2_mixing_chosen_at_construction": dict(expect=["C06"],
                                                        edits=[
        E("qkeras/quantizers.py",
          "    if self.use_ste:\n"
          "      return x + tf.stop_gradient(self.qnoise_factor * (-x + xq))\n"
          "    else:\n"
          "      return (1 - self.qnoise_factor) * x + tf.stop_gradient(\n"
          "          self.qnoise_factor * xq)\n\n"
          "  def max(self):\n"
          "    \"\"\"Get the maximum value that quantized_relu_po2 can "
          "represent.\"\"\"\n",
          "    if self._ste_at_construction:\n"
          "      return x + tf.stop_gradient(self.qnoise_factor * (-x + xq))\n"
          "    else:\n"
          "      return (1 - self.qnoise_factor) * x + tf.stop_gradient(\n"
          "          self.qnoise_factor * xq)\n\n"
          "  def max(self):\n"
          "    \"\"\"Get the maximum value that quantized_relu_po2 can "
          "represent.\"\"\"\n"),
        E("qkeras/quantizers.py",
          "    self.use_ste = use_ste\n", 
          "    self.use_ste = use_ste\n    self._ste_at_construction = use_ste\n",
          matches=4, which=3)]),
    # --- round 17 ---------------------------------------------------------
    # the scheduler's step counter as a class-level numpy array
    "m132_scheduler_counter_at_class_level": dict(expect=["C07"], edits=[
        E("qkeras/callbacks.py",
          "class QNoiseScheduler(tf.keras.callbacks.Callback):\n",
          "class QNoiseScheduler(tf.keras.callbacks.Callback):\n"
          "  num_iters = np.array(0, dtype=\"int64\")\n"),
        E("qkeras/callbacks.py",
          "    self.num_iters = np.array(0, dtype=\"int64\")\n", "")]),
    # get_weights quantizes with copies of the layer's quantizers
    "m133_get_weights_on_copied_quantizers": dict(expect=["C18"], edits=[
        E("qkeras/qtools/qtools_util.py",
          "        out[j] = K.eval(\n"
          "            layer.get_quantizers()[j](K.constant(weight)))\n",
          "        out[j] = K.eval(copy.deepcopy(\n"
          "            layer.get_quantizers()[j])(K.constant(weight)))\n")]),
    # limit groups created from one shared dictionary
    "m134_limit_groups_from_one_dict": dict(expect=["C20"], edits=[
        E("qkeras/autoqkeras/autoqkeras_internal.py",
          "      if name not in self.groups:\n"
          "        self.groups[name] = {index: (q_name, q_dict[q_name])}\n"
          "      else:\n"
          "        self.groups[name][index] = (q_name, q_dict[q_name])\n",
          "      if not self.groups:\n"
          "        self.groups = dict.fromkeys(self.limit, {})\n"
          "      self.groups[name][index] = (q_name, q_dict[q_name])\n")]),
    # --- round 18 ---------------------------------------------------------
    "m135_ternary_threshold_with_epsilon": dict(expect=["C04"], edits=[
        E("qkeras/quantizers.py",
          "        thres = scale / 2.0\n",
          "        thres = scale / 2.0 + K.epsilon()\n")]),
    "m136_dense_bias_constraint_from_kernel": dict(expect=["C12"], edits=[
        E("qkeras/qlayers.py",
          "          get_auto_range_constraint_initializer("
          "self.bias_quantizer_internal,\n"
          "                                                bias_constraint,\n",
          "          get_auto_range_constraint_initializer("
          "self.kernel_quantizer_internal,\n"
          "                                                bias_constraint,\n"
          )]),
    "m137_transpose_output_padding_swapped": dict(expect=["C11"], edits=[
        E("qkeras/qconvolutional.py",
          "      out_pad_h, out_pad_w = self.output_padding\n",
          "      out_pad_w, out_pad_h = self.output_padding\n")]),
    "m138_np_value_first_entry_of_any_array": dict(expect=["C16"], edits=[
        E(QO + "quantizer_impl.py",
          "    if isinstance(val, np.ndarray) and len(val) == 1:\n",
          "    if isinstance(val, np.ndarray) and len(val) >= 1:\n")]),
    "m139_list_entries_without_sign": dict(expect=["C10"], edits=[
        E("qkeras/safe_eval.py",
          "def ListofNums(s):\n"
          "  # remove list brackets\n"
          "  s = s.replace(\"[\", \"\").replace(\"]\", \"\")\n",
          "def ListofNums(s):\n"
          "  # remove list brackets\n"
          "  s = s.replace(\"[\", \"\").replace(\"]\", \"\")"
          ".replace(\"-\", \"\")\n")]),
    # --- round 19 ---------------------------------------------------------
    "m140_relu_noise_factor_or_one": dict(expect=["C07"], edits=[
        E("qkeras/quantizers.py",
          "    self.is_quantized_clip = is_quantized_clip\n"
          "    self.qnoise_factor = qnoise_factor\n",
          "    self.is_quantized_clip = is_quantized_clip\n"
          "    self.qnoise_factor = qnoise_factor or 1.0\n")]),
    "m141_global_max_pooling_not_counted": dict(expect=["C19"], edits=[
        E("qkeras/qtools/qtools_util.py",
          "    return \"MaxPool\" in lname or \"Reshape\" in lname or "
          "\"Flatten\" in lname\n",
          "    return (\"MaxPool\" in lname and \"Global\" not in lname or\n"
          "            \"Reshape\" in lname or \"Flatten\" in lname)\n")]),
    "m142_bits_scale_axis_dropped_without_alpha": dict(expect=["C05"], edits=[
        E("qkeras/quantizers.py",
          "    self.scale_axis = scale_axis\n"
          "    self.qnoise_factor = qnoise_factor\n",
          "    self.scale_axis = scale_axis if isinstance(\n"
          "        alpha, six.string_types) else None\n"
          "    self.qnoise_factor = qnoise_factor\n")]),
    "m143_ternary_scale_from_float_alpha_only": dict(expect=["C04"], edits=[
        E("qkeras/quantizers.py",
          "    elif isinstance(self.alpha, np.ndarray):\n"
          "      scale = self.alpha\n"
          "    else:\n"
          "      scale = float(self.alpha)\n\n"
          "    # This is an approximiation from",
          "    elif isinstance(self.alpha, np.ndarray):\n"
          "      scale = self.alpha\n"
          "    elif isinstance(self.alpha, float):\n"
          "      scale = self.alpha\n"
          "    else:\n"
          "      scale = 1.0\n\n"
          "    # This is an approximiation from")]),
    "m144_bn_options_only_if_truthy": dict(expect=["C15"], edits=[
        E("qkeras/qdepthwiseconv2d_batchnorm.py",
          "        axis=axis, momentum=momentum, epsilon=epsilon, "
          "center=center,\n",
          "        axis=axis, momentum=momentum or 0.99, "
          "epsilon=epsilon or 0.001,\n"
          "        center=center,\n")]),
    "m95_po2_operand_converted_in_place": dict(expect=["C17"], edits=[
        E(QO + "adder_factory.py",
          "    local_quantizer_1 = copy.deepcopy(quantizer_1)\n"
          "    local_quantizer_2 = copy.deepcopy(quantizer_2)\n",
          "    local_quantizer_1 = quantizer_1\n"
          "    local_quantizer_2 = quantizer_2\n"),
        E(QO + "adder_impl.py",
          "  qbits_quantizer = quantizer_impl.QuantizedBits()\n"
          "  qbits_quantizer.bits = bits_from_po2\n"
          "  qbits_quantizer.int_bits = int_bits_from_po2\n"
          "  qbits_quantizer.is_signed = po2_quantizer.is_signed\n\n"
          "  return qbits_quantizer\n",
          "  # re-use the operand object: it is a private copy\n"
          "  po2_quantizer.mode = 0\n  po2_quantizer.is_po2 = 0\n"
          "  po2_quantizer.bits = bits_from_po2\n"
          "  po2_quantizer.int_bits = int_bits_from_po2\n"
          "  po2_quantizer.name = \"quantized_bits\"\n\n"
          "  return po2_quantizer\n")]),
}

BENIGN = {
    "b01_residual_reordered": dict(edits=[E(
        Q, "    output = x + tf.stop_gradient(-x + tf.round(x))\n  return "
        "output", "    output = x + tf.stop_gradient(tf.round(x) - x)\n  "
        "return output")]),
    "b02_relu_bound_as_minimum": dict(edits=[E(
        Q, "      x_u = tf.where(x <= m_i - m_f, K.relu(x, "
        "alpha=self.negative_slope),\n                     tf.ones_like(x) * "
        "(m_i - m_f))",
        "      x_u = K.minimum(K.relu(x, alpha=self.negative_slope), m_i - "
        "m_f)")]),
    "b03_local_rename": dict(edits=[E(
        Q, "unsigned_bits", "n_unsigned_bits", matches=26, which="all")]),
    "b04_config_successive_stores": dict(edits=[E(
        Q, '    config = {\n        "bits": self.bits,\n        "symmetric": '
        'self.symmetric,\n        "use_stochastic_rounding": '
        'self.use_stochastic_rounding,\n        "use_real_tanh": '
        'self.use_real_tanh\n    }\n    return config',
        '    config = {}\n    config["bits"] = self.bits\n    '
        'config["symmetric"] = self.symmetric\n    '
        'config["use_stochastic_rounding"] = self.use_stochastic_rounding\n'
        '    config["use_real_tanh"] = self.use_real_tanh\n    return '
        'config')]),
    "b05_scheduler_init_reordered": dict(edits=[E(
        "qkeras/callbacks.py",
        "    self.update_freq = update_freq\n    self.initial_step_or_epoch "
        "= initial_step_or_epoch\n    self.exponent = exponent\n",
        "    self.exponent = exponent\n    self.initial_step_or_epoch = "
        "initial_step_or_epoch\n    self.update_freq = update_freq\n")]),
    "b06_getparams_local_rename": dict(edits=[E(
        "qkeras/safe_eval.py", "items", "parsed_items", matches=9,
        which="all")]),
    "b07_comment_and_blank_lines": dict(edits=[E(
        "qkeras/qtools/qtools_util.py",
        "  operation_count = 0\n",
        "  # default when no arm matches\n\n  operation_count = 0\n\n")]),
    "b08_multiplier_sum_commuted": dict(edits=[E(
        QO + "multiplier_impl.py",
        "    self.output.int_bits = self.input.int_bits + "
        "self.weights.int_bits",
        "    self.output.int_bits = self.weights.int_bits + "
        "self.input.int_bits")]),
    "b09_total_energy_reordered": dict(edits=[E(
        "qkeras/qtools/qenergy/qenergy.py",
        "    total_energy += (input_rd_energy + output_wr_energy +\n"
        "                     parameter_rd_energy + energy_op)",
        "    total_energy += (energy_op + parameter_rd_energy +\n"
        "                     output_wr_energy + input_rd_energy)")]),
    "b10_stochastic_round_mirrored": dict(edits=[E(
        Q, "fraction < tf.random.uniform(tf.shape(x))",
        "tf.random.uniform(tf.shape(x)) > fraction")]),
    "b11_qdense_conditional_expression": dict(edits=[E(
        "qkeras/qlayers.py",
        "    if self.kernel_quantizer:\n      quantized_kernel = "
        "self.kernel_quantizer_internal(self.kernel)\n    else:\n      "
        "quantized_kernel = self.kernel\n    output = tf.keras.backend.dot(",
        "    quantized_kernel = (self.kernel_quantizer_internal(self.kernel)"
        "\n                        if self.kernel_quantizer else "
        "self.kernel)\n    output = tf.keras.backend.dot(")]),
    "b12_python_pow": dict(edits=[E(
        Q, "    m_i = K.pow(2.0, K.cast_to_floatx(self.integer))\n\n    # "
        "Verify that",
        "    m_i = pow(2.0, K.cast_to_floatx(self.integer))\n\n    # Verify "
        "that")]),
    "b13_forgiving_log_difference": dict(edits=[E(
        "qkeras/autoqkeras/forgiving_metrics/forgiving_factor.py",
        "np.log(self.reference_size/self.trial_size)",
        "(np.log(self.reference_size) - np.log(self.trial_size))",
        matches=2, which="all")]),
    "b14_linear_mixing_rewritten": dict(edits=[E(
        Q, "    res = x + self.qnoise_factor * (xq - x)",
        "    res = (1 - self.qnoise_factor) * x + self.qnoise_factor * xq")]),
    "b15_model_quantize_helper_var": dict(edits=[E(
        U, '      if layer_config["use_bias"]:\n        bias_quantizer = '
        'get_config(\n            quantizer_config, layer, q_name, '
        '"bias_quantizer")\n      else:\n        bias_quantizer = None\n',
        '      has_bias = layer_config["use_bias"]\n      bias_quantizer = '
        'None\n      if has_bias:\n        bias_quantizer = get_config(\n'
        '            quantizer_config, layer, q_name, "bias_quantizer")\n')]),
    "b16_adder_fraction_order": dict(edits=[E(
        QO + "adder_impl.py",
        "    fractional_bits = max(fractional_bits1, fractional_bits2)",
        "    fractional_bits = max(fractional_bits2, fractional_bits1)")]),
    "b17_count_factors_reordered": dict(edits=[E(
        "qkeras/qtools/qtools_util.py",
        "    operation_count = (\n        height_o * width_o * channels_o * "
        "kernel_h * kernel_w * channels_i)",
        "    operation_count = (\n        kernel_h * kernel_w * channels_i * "
        "channels_o * height_o * width_o)")]),
    "b18_folded_bias_refactored": dict(edits=[E(
        "qkeras/qconv2d_batchnorm.py",
        "      folded_bias = inv * (bias - new_mean) + beta",
        "      folded_bias = inv * bias - inv * new_mean + beta")]),
    "b19_clone_per_layer_transfer": dict(props=["C13", "C12", "C20"], edits=[E(
        U, "  qmodel.set_weights(model.get_weights())\n\n  return qmodel",
        "  for layer, qlayer in zip(model.layers, qmodel.layers):\n"
        "    if layer.get_weights():\n"
        "      qlayer.set_weights(layer.get_weights())\n\n  return qmodel")]),
    "b20_get_exp_folded_min": dict(props=["C16", "C17", "C18"], edits=[E(
        QO + "quantizer_impl.py",
        "      max_exp = math.ceil(np.log2(quantizer.max_val_po2))\n"
        "      max_exp = min(max_exp, max_exp_orig)",
        "      max_exp = min(math.ceil(np.log2(quantizer.max_val_po2)),\n"
        "                    max_exp_orig)")]),
    "b21_write_energy_io_mode_expression": dict(props=["C19"], edits=[E(
        "qkeras/qtools/qenergy/qenergy.py",
        '  if is_output_layer:\n    if rd_wr_on_io:\n      mode = "dram"\n'
        '    else:\n      mode = "sram"\n',
        '  if is_output_layer:\n    mode = "dram" if rd_wr_on_io else '
        '"sram"\n')]),
    "b22_global_pool_axes_cached_after_super": dict(props=["C11"], edits=[
        E("qkeras/qpooling.py",
          "    super().__init__(data_format=data_format, **kwargs)\n\n"
          "  def compute_pooling_area(self, input_shape):",
          "    super().__init__(data_format=data_format, **kwargs)\n"
          "    self._spatial_axes = ((1, 2) if self.data_format == "
          "\"channels_last\"\n                          else (2, 3))\n\n"
          "  def compute_pooling_area(self, input_shape):"),
        E("qkeras/qpooling.py",
          "      if self.data_format == \"channels_last\":\n"
          "        x = K.sum(inputs, axis=[1, 2], keepdims=self.keepdims)\n"
          "      else:\n"
          "        x = K.sum(inputs, axis=[2, 3], keepdims=self.keepdims)\n",
          "      x = K.sum(inputs, axis=list(self._spatial_axes),\n"
          "                keepdims=self.keepdims)\n")]),
    "b23_qdense_flag_cached_in_init": dict(props=["C11", "C13"], edits=[
        E("qkeras/qlayers.py",
          "    self.kernel_quantizer = kernel_quantizer\n    "
          "self.bias_quantizer = bias_quantizer\n\n    "
          "self.kernel_quantizer_internal = get_quantizer("
          "self.kernel_quantizer)",
          "    self.kernel_quantizer = kernel_quantizer\n    "
          "self.bias_quantizer = bias_quantizer\n    "
          "self._quantize_kernel = kernel_quantizer is not None\n\n    "
          "self.kernel_quantizer_internal = get_quantizer("
          "self.kernel_quantizer)"),
        E("qkeras/qlayers.py",
          "  def call(self, inputs):\n    if self.kernel_quantizer:\n"
          "      quantized_kernel = self.kernel_quantizer_internal("
          "self.kernel)\n    else:\n      quantized_kernel = self.kernel\n"
          "    output = tf.keras.backend.dot(",
          "  def call(self, inputs):\n    if self._quantize_kernel:\n"
          "      quantized_kernel = self.kernel_quantizer_internal("
          "self.kernel)\n    else:\n      quantized_kernel = self.kernel\n"
          "    output = tf.keras.backend.dot(")]),
    "b24_qactivation_config_local_var": dict(props=["C13", "C12"], edits=[E(
        "qkeras/qlayers.py",
        '    config = {"activation": self.activation}\n    base_config = '
        'super(QActivation, self).get_config()',
        '    activation = self.activation\n    config = {"activation": '
        'activation}\n    base_config = super(QActivation, self).'
        'get_config()')]),
    "b25_fold_guard_inline_len": dict(props=["C15", "C12"], edits=[E(
        U, "      is_single = len(successor_ids) == 1\n",
        "      is_single = len(list(graph.successors(node_id))) == 1\n",
        matches=2, which="all")]),
    "b26_layer_indexes_as_set": dict(props=["C20"], edits=[E(
        "qkeras/autoqkeras/autoqkeras_internal.py",
        "    self.layer_indexes = layer_indexes\n    "
        "self.learning_rate_optimizer = learning_rate_optimizer\n\n    "
        "# load quantizer types",
        "    self.layer_indexes = (set(layer_indexes)\n"
        "                          if layer_indexes is not None else None)\n"
        "    self.learning_rate_optimizer = learning_rate_optimizer\n\n    "
        "# load quantizer types")]),
    "b27_set_trainable_early_return": dict(props=["C14", "C05", "C09"],
                                           edits=[E(
        Q, "  def _set_trainable_parameter(self):\n    if self.alpha is "
        "None:\n      self.alpha = \"auto_po2\"\n      self.freeze_scale "
        "= False\n      self.symmetric = True\n",
        "  def _set_trainable_parameter(self):\n    if self.alpha is not "
        "None:\n      return\n    self.alpha = \"auto_po2\"\n    "
        "self.freeze_scale = False\n    self.symmetric = True\n")]),
    "b28_bernoulli_check_by_class_flag": dict(props=["C16", "C17", "C18"],
                                              edits=[E(
        QO + "multiplier_impl.py",
        "      if weight_quantizer.mode == 4:",
        "      if getattr(weight_quantizer, \"use_01\", False):")]),
    "b29_auto_po2_shift_names": dict(props=["C18"], edits=[E(
        "qkeras/qtools/qtools_util.py",
        "      max_fractional_bits = bits - int_bits - min_shift\n      "
        "max_int_bits = int_bits + max_shift\n      total_bits = "
        "max_int_bits + max_fractional_bits\n",
        "      max_int_bits = int_bits + max_shift\n      "
        "total_bits = max_int_bits + (bits - int_bits) - min_shift\n")]),
    "b30_group_scale_expand_tile_reshape": dict(props=["C04", "C05", "C09"],
                                                edits=[E(
        Q, "  return tf.repeat(x, repeats=repeats, axis=axis)\n",
        "  shape = x.shape.as_list()\n  multiples = [1] * (len(shape) + 1)"
        "\n  multiples[axis + 1] = repeats\n  shape[axis] *= repeats\n"
        "  return tf.reshape(\n      tf.tile(tf.expand_dims(x, axis + 1), "
        "multiples), shape)\n")]),
    "b31_relu_slope_single_lookup": dict(props=["C12"], edits=[E(
        U, '      if layer["class_name"] == "LeakyReLU":\n        '
        'negative_slope = layer["config"]["alpha"]\n      elif '
        'layer["class_name"] == "relu":\n        max_value = '
        'layer["config"]["max_value"]\n        negative_slope = '
        'layer["config"]["alpha"]\n        threshold = '
        'layer["config"]["threshold"]\n      else:  # ReLU from mobilenet\n'
        '        max_value = layer["config"]["max_value"]\n        '
        'negative_slope = layer["config"]["negative_slope"]\n        '
        'threshold = layer["config"]["threshold"]\n',
        '      # Keras ReLU stores the slope as negative_slope, the legacy '
        'relu layer\n      # and LeakyReLU as alpha.\n      negative_slope '
        '= layer["config"].get(\n          "negative_slope", '
        'layer["config"].get("alpha", 0.0))\n')]),
    "b32_mask_stored_as_2d_by_reshape": dict(props=["C13", "C11"], edits=[E(
        "qkeras/qconvolutional.py",
        '        "mask": self._mask.tolist() if self._mask is not None '
        'else None,',
        '        "mask": (np.reshape(self._mask, self._mask.shape[:2])'
        '.tolist()\n                 if self._mask is not None else None),')]),
    "b33_energy_keys_helper": dict(props=["C19"], edits=[E(
        "qkeras/qtools/run_qtools.py",
        '      keys = cfg_setting.get(class_name, cfg_setting.get("default", '
        '[]))\n      value += sum(',
        '      default_keys = cfg_setting.get("default", [])\n      keys = '
        'cfg_setting.get(class_name, default_keys)\n      value += sum(')]),
    "b34_causal_padding_applied_by_the_layer": dict(props=["C11", "C13"],
                                                    edits=[E(
        "qkeras/qconvolutional.py",
        "    outputs = tf.keras.backend.conv1d(\n        inputs,\n        "
        "quantized_kernel,\n        strides=self.strides[0],\n        "
        "padding=self.padding,\n",
        "    op_padding = self.padding\n    if self.padding == \"causal\":\n"
        "      pad = self.dilation_rate[0] * (self.kernel_size[0] - 1)\n"
        "      inputs = array_ops.pad(inputs, [[0, 0], [pad, 0], [0, 0]])\n"
        "      op_padding = \"valid\"\n"
        "    outputs = tf.keras.backend.conv1d(\n        inputs,\n        "
        "quantized_kernel,\n        strides=self.strides[0],\n        "
        "padding=op_padding,\n")]),
    "b35_estimator_range_parts_hoisted": dict(props=["C18"], edits=[
        E("qkeras/estimate.py",
          "      all_bits = []\n      nbits = []\n",
          "      x_min, x_max = x[layer.name][0], x[layer.name][1]\n"
          "      x_pos = x_max if x_max > 0 else 0\n"
          "      x_neg = x_min if x_min < 0 else 0\n"
          "      all_bits = []\n      nbits = []\n"),
        E("qkeras/estimate.py",
          "        n1 = npp * (x_max > 0) * x_max + nnn * (x_min < 0) * x_min"
          " + b[i]\n        n0 = - (nnn * (x_max > 0) * x_max + npp * "
          "(x_min < 0) * x_min + b[i])\n",
          "        n1 = npp * x_pos + nnn * x_neg + b[i]\n"
          "        n0 = - (nnn * x_pos + npp * x_neg + b[i])\n")]),
    "b36_estimator_exact_extremes": dict(props=["C18"], edits=[E(
        "qkeras/estimate.py",
        "        n1 = npp * (x_max > 0) * x_max + nnn * (x_min < 0) * x_min"
        " + b[i]\n        n0 = - (nnn * (x_max > 0) * x_max + npp * "
        "(x_min < 0) * x_min + b[i])\n",
        "        # exact extremes of sum(w * x) + b over the input range\n"
        "        n1 = npp * x_max + nnn * x_min + b[i]\n"
        "        n0 = - (nnn * x_max + npp * x_min + b[i])\n")]),
    "b37_scheduler_getattr_default": dict(props=["C07"], edits=[E(
        "qkeras/callbacks.py",
        "        if hasattr(layer, attr):\n          quantizers = getattr("
        "layer, attr)\n          quantizers = quantizers if attr == "
        "\"quantizers\" else [quantizers]\n",
        "        quantizers = getattr(layer, attr, None)\n        if "
        "quantizers is not None:\n          quantizers = quantizers if attr "
        "== \"quantizers\" else [quantizers]\n")]),
    "b38_freeze_dispatch_by_table": dict(props=["C14"], edits=[E(
        U, '    if layer_class == "QConv2D":\n      x = _create_qconv2d_layer('
        'layer_cfg,\n                                '
        'auto_po2_quantizer_with_frozen_scale)(x)\n    elif layer_class == '
        '"QDepthwiseConv2D":\n      x = _create_qdepthwise_conv2d_layer(\n'
        '          layer_cfg, auto_po2_quantizer_with_frozen_scale)(x)\n'
        '    elif layer_class == "QBatchNormalization":\n      x = '
        '_create_bn_layer(layer_cfg,\n                           '
        'auto_po2_quantizer_with_frozen_scale)(x)\n    elif layer_class == '
        '"QDense":\n      x = _create_qdense_layer(layer_cfg,\n'
        '                               '
        'auto_po2_quantizer_with_frozen_scale)(x)\n    else:\n      x = '
        '_create_other_layer(layer)(x)\n',
        '    creators = {\n        "QConv2D": _create_qconv2d_layer,\n'
        '        "QDepthwiseConv2D": _create_qdepthwise_conv2d_layer,\n'
        '        "QBatchNormalization": _create_bn_layer,\n'
        '        "QDense": _create_qdense_layer,\n    }\n'
        '    if layer_class in creators:\n      new_layer = creators['
        'layer_class](\n          layer_cfg, '
        'auto_po2_quantizer_with_frozen_scale)\n    else:\n      new_layer '
        '= _create_other_layer(layer)\n    x = new_layer(x)\n')]),
    "b39_tanh_from_internal_sigmoid_rewritten": dict(props=["C02", "C01",
                                                            "C06"],
                                                     edits=[E(
        Q, "    p = K.tanh(x) if self.use_real_tanh else 2.0 * _sigmoid(x) "
        "- 1.0\n",
        "    p = K.tanh(x) if self.use_real_tanh else (_sigmoid(x) - 0.5) "
        "* 2.0\n")]),
    # the benign twin of C19-seed5: output sizes from the hyper-parameters,
    # dilation included (kept as a patch file)
    "b40_count_from_hyperparameters": dict(props=["C19"], edits=os.path.join(
        os.path.dirname(os.path.abspath(__file__)), "benign_patches",
        "b40_count_from_hyperparameters.diff")),
    "b41_node_dict_with_setdefault": dict(props=["C18", "C14", "C15"],
                                         edits=[E(
        "qkeras/qtools/qgraph.py",
        "    if i not in nodes_dict.keys():\n      nodes_dict[i] = [layer]\n"
        "    else:\n      nodes_dict[i].append(layer)\n",
        "    nodes_dict.setdefault(i, []).append(layer)\n")]),
    # the benign twin of C10-seed7: memoised parse, every use gets a copy
    "b42_cached_parse_copied": dict(props=["C10", "C09"], edits=os.path.join(
        os.path.dirname(os.path.abspath(__file__)), "benign_patches",
        "b42_cached_parse_copied.diff")),
    # the benign twin of C15-seed9: unfolding from a static table of config
    # keys (no throw-away template layer) that lists dilation_rate for both
    # classes
    "b46_unfold_from_key_table": dict(props=["C15", "C13"], edits=os.path.join(
        os.path.dirname(os.path.abspath(__file__)), "benign_patches",
        "b46_unfold_from_key_table.diff")),
    # the benign twin of C16-seed9: the memoised exponent range is dropped
    # by every method that re-sizes the operand
    "b47_exponent_range_memo_invalidated": dict(
        props=["C16", "C17", "C18"], edits=os.path.join(
            os.path.dirname(os.path.abspath(__file__)), "benign_patches",
            "b47_exponent_range_memo_invalidated.diff")),
    # the benign twin of C19-seed9: the eight per-process polynomials applied
    # in a loop, each under its own try
    "b48_process_costs_in_a_loop": dict(props=["C19"], edits=os.path.join(
        os.path.dirname(os.path.abspath(__file__)), "benign_patches",
        "b48_process_costs_in_a_loop.diff")),
    # the benign twin of C11-seed10: the intermediate activation / dropout
    # block of the MobileNet factory as a local helper, used in both orders
    "b49_mobilenet_mid_block_helper": dict(props=["C11"], edits=[
        E("qkeras/qconvolutional.py",
          "    x = inputs\n\n    if pw_first:\n",
          "    x = inputs\n\n"
          "    def _between(x):\n"
          "      if depthwise_activation:\n"
          "        if isinstance(depthwise_activation, QActivation):\n"
          "          x = depthwise_activation(x)\n"
          "        else:\n"
          "          x = QActivation(depthwise_activation,\n"
          "                          name=name + \"_dw_act\")(x)\n"
          "      if depthwise_dropout_rate > 0.0:\n"
          "        x = Dropout(rate=depthwise_dropout_rate,\n"
          "                    name=name + \"_dw_dropout\")(x)\n"
          "      return x\n\n"
          "    if pw_first:\n"),
        E("qkeras/qconvolutional.py",
          "      if depthwise_activation:\n"
          "        if isinstance(depthwise_activation, QActivation):\n"
          "          x = depthwise_activation(x)\n"
          "        else:\n"
          "          x = QActivation(depthwise_activation, name=name + "
          "\"_dw_act\")(x)\n\n"
          "      if depthwise_dropout_rate > 0.0:\n"
          "        x = Dropout(rate=depthwise_dropout_rate, name=name + "
          "\"_dw_dropout\")(x)\n",
          "      x = _between(x)\n", matches=2, which="all")]),
    # the benign twin of C14-seed11: the in-place rescaling of the exported
    # scale acts on a copy made just before it
    "b50_export_scale_scaled_on_a_copy": dict(props=["C14", "C05"],
                                              edits=os.path.join(
        os.path.dirname(os.path.abspath(__file__)), "benign_patches",
        "b50_export_scale_scaled_on_a_copy.diff")),
    # the benign twin of C03-seed9: max_value setters that re-derive the
    # exponent range correctly for both po2 classes
    "b45_po2_max_value_setters": dict(props=["C03", "C09", "C10"],
                                      edits=os.path.join(
        os.path.dirname(os.path.abspath(__file__)), "benign_patches",
        "b45_po2_max_value_setters.diff")),
    # --- round 16 ---------------------------------------------------------
    # benign twins of C17-seed16 / C04-seed16: the same memoisation with a
    # COMPLETE key
    "b66_adder_memo_with_complete_key": dict(props=["C17", "C18"],
                                             edits=os.path.join(
        os.path.dirname(os.path.abspath(__file__)), "benign_patches",
        "b66_adder_memo_with_complete_key.diff")),
    "b67_reduce_axes_memo_keyed_by_format": dict(props=["C04", "C05"],
                                                 edits=os.path.join(
        os.path.dirname(os.path.abspath(__file__)), "benign_patches",
        "b67_reduce_axes_memo_keyed_by_format.diff")),
    # --- round 19 ---------------------------------------------------------
    "b75_bn_options_without_unset_ones": dict(props=["C15", "C13", "C14"],
                                              edits=[
        E("qkeras/qconv2d_batchnorm.py",
          "    self.batchnorm = layers.BatchNormalization(\n"
          "        axis=axis, momentum=momentum, epsilon=epsilon, "
          "center=center,\n"
          "        scale=scale, beta_initializer=beta_initializer,\n",
          "    bn_core = dict(axis=axis, momentum=momentum, epsilon=epsilon,\n"
          "                   center=center, scale=scale)\n"
          "    bn_core = {k: v for k, v in bn_core.items() if v is not None}\n"
          "    self.batchnorm = layers.BatchNormalization(\n"
          "        beta_initializer=beta_initializer,\n"),
        E("qkeras/qconv2d_batchnorm.py",
          "        virtual_batch_size=virtual_batch_size, "
          "adjustment=adjustment)\n",
          "        virtual_batch_size=virtual_batch_size, "
          "adjustment=adjustment,\n"
          "        **bn_core)\n")]),
    "b72_shape_alternation_by_any": dict(props=["C19", "C18"], edits=[
        E("qkeras/qtools/qtools_util.py",
          "    return \"MaxPool\" in lname or \"Reshape\" in lname or "
          "\"Flatten\" in lname\n",
          "    return any(key in lname for key in (\"MaxPool\", \"Reshape\",\n"
          "                                        \"Flatten\"))\n")]),
    "b73_noise_factor_none_means_one": dict(props=["C07", "C06", "C09"],
                                            edits=[
        E("qkeras/quantizers.py",
          "    self.is_quantized_clip = is_quantized_clip\n"
          "    self.qnoise_factor = qnoise_factor\n",
          "    self.is_quantized_clip = is_quantized_clip\n"
          "    self.qnoise_factor = 1.0 if qnoise_factor is None else "
          "qnoise_factor\n")]),
    "b74_ternary_scale_float_or_int": dict(props=["C04", "C10"], edits=[
        E("qkeras/quantizers.py",
          "    elif isinstance(self.alpha, np.ndarray):\n"
          "      scale = self.alpha\n"
          "    else:\n"
          "      scale = float(self.alpha)\n\n"
          "    # This is an approximiation from",
          "    elif isinstance(self.alpha, (int, float)):\n"
          "      scale = float(self.alpha)\n"
          "    else:\n"
          "      scale = self.alpha\n\n"
          "    # This is an approximiation from")]),
    # --- round 18 ---------------------------------------------------------
    "b68_ternary_divides_by_reciprocal": dict(props=["C04", "C05"], edits=[
        E("qkeras/quantizers.py",
          "            x / scale,\n"
          "            use_stochastic_rounding=self.use_stochastic_rounding,\n"
          "            precision=1. / 3.)\n",
          "            x * (1.0 / scale),\n"
          "            use_stochastic_rounding=self.use_stochastic_rounding,\n"
          "            precision=1. / 3.)\n")]),
    "b69_list_brackets_stripped": dict(props=["C10", "C09", "C20"], edits=[
        E("qkeras/safe_eval.py",
          "def ListofNums(s):\n"
          "  # remove list brackets\n"
          "  s = s.replace(\"[\", \"\").replace(\"]\", \"\")\n",
          "def ListofNums(s):\n"
          "  # remove list brackets\n"
          "  s = s.strip(\"[]\")\n")]),
    "b70_transpose_output_padding_test_inverted": dict(props=["C11"], edits=[
        E("qkeras/qconvolutional.py",
          "    if self.output_padding is None:\n"
          "      out_pad_h = out_pad_w = None\n"
          "    else:\n"
          "      out_pad_h, out_pad_w = self.output_padding\n",
          "    if self.output_padding is not None:\n"
          "      out_pad_h, out_pad_w = self.output_padding\n"
          "    else:\n"
          "      out_pad_h = out_pad_w = None\n")]),
    "b71_np_value_unwraps_in_one_return": dict(props=["C16", "C17", "C18"],
                                               edits=[
        E(QO + "quantizer_impl.py",
          "    if isinstance(val, np.ndarray) and len(val) == 1:\n"
          "      return val[0]\n"
          "    else:\n"
          "      return val\n",
          "    return val[0] if isinstance(val, np.ndarray) and "
          "len(val) == 1 else val\n")]),
    # --- round 15 ---------------------------------------------------------
    "b61_foldable_classes_in_a_tuple": dict(props=["C15"], edits=[
        E("qkeras/utils.py",
          "      is_foldable = layer.__class__.__name__ in [\n"
          "          \"Conv2D\", \"DepthwiseConv2D\"\n"
          "      ] and is_single and followed_by_bn\n",
          "      is_foldable = is_single and followed_by_bn and (\n"
          "          layer.__class__.__name__ in (\"Conv2D\", "
          "\"DepthwiseConv2D\"))\n")]),
    "b62_io_layer_test_by_identity": dict(props=["C19"], edits=[
        E("qkeras/qtools/qenergy/qenergy.py",
          "    is_input_layer = layer in input_layers\n",
          "    is_input_layer = any(layer is l for l in input_layers)\n")]),
    "b63_quantizer_list_through_a_local": dict(props=["C14", "C11"], edits=[
        E("qkeras/qdepthwise_conv2d_transpose.py",
          "    return [\n"
          "        self.depthwise_kernel_quantizer_internal,\n"
          "        self.bias_quantizer_internal,\n"
          "        self.depthwise_activation,\n"
          "    ]\n",
          "    quantizers = [self.depthwise_kernel_quantizer_internal]\n"
          "    quantizers.append(self.bias_quantizer_internal)\n"
          "    quantizers.append(self.depthwise_activation)\n"
          "    return list(quantizers)\n")]),
    "b64_dense_arm_activation_test_inverted": dict(props=["C12"], edits=[
        E("qkeras/utils.py",
          "      quantizer = get_config(\n"
          "          quantizer_config, layer, q_name, "
          "\"activation_quantizer\")\n\n"
          "      if quantizer:\n"
          "        layer_config[\"activation\"] = quantizer\n"
          "      else:\n"
          "        quantize_activation(layer_config, activation_bits)\n\n"
          "    elif layer[\"class_name\"] == \"DepthwiseConv2D\":\n",
          "      quantizer = get_config(\n"
          "          quantizer_config, layer, q_name, "
          "\"activation_quantizer\")\n\n"
          "      if not quantizer:\n"
          "        quantize_activation(layer_config, activation_bits)\n"
          "      else:\n"
          "        layer_config[\"activation\"] = quantizer\n\n"
          "    elif layer[\"class_name\"] == \"DepthwiseConv2D\":\n")]),
    # a log2 helper WITHOUT an additive epsilon on the exponent path
    "b65_clip_po2_log2_helper": dict(props=["C03", "C08"], edits=[
        E("qkeras/quantizers.py",
          "def _get_scaling_axis(scale_axis: Any, len_axis: int) -> "
          "List[int]:\n",
          "def _plain_log2(v):\n"
          "  return K.log(v) / np.log(2.0)\n\n\n"
          "def _get_scaling_axis(scale_axis: Any, len_axis: int) -> "
          "List[int]:\n")]),
    # --- round 14 ---------------------------------------------------------
    "b55_channels_first_axes_by_slicing": dict(props=["C04", "C05"], edits=[
        E("qkeras/quantizers.py",
          "    else:\n      axis = tf.range(1, len_axis)\n  return axis\n",
          "    else:\n      axis = tf.range(len_axis)[1:]\n  return axis\n")]),
    "b56_dense_output_shape_concatenated": dict(props=["C12"], edits=[
        E("qkeras/qlayers.py",
          "    output_shape = list(input_shape)\n"
          "    output_shape[-1] = self.units\n"
          "    return tuple(output_shape)\n",
          "    return tuple(input_shape[:-1]) + (self.units,)\n")]),
    "b57_mask_reloaded_as_float32": dict(props=["C13"], edits=[
        E("qkeras/qconvolutional.py",
          "      mask = np.array(mask)\n",
          "      mask = np.array(mask, dtype=np.float32)\n")]),
    # the benign twin of C19-seed14: the loop-built entries bind the family
    # name as a default argument
    "b58_fp_cost_entries_in_a_loop": dict(props=["C19"], edits=os.path.join(
        os.path.dirname(os.path.abspath(__file__)), "benign_patches",
        "b58_fp_cost_entries_in_a_loop.diff")),
    "b59_clone_with_keyword": dict(props=["C20"], edits=[
        E("qkeras/autoqkeras/autoqkeras_internal.py",
          "    model = clone_model(self.model, self.custom_objects)\n",
          "    model = clone_model(self.model,\n"
          "                        custom_objects=self.custom_objects)\n")]),
    # the benign twin of C06-seed14: a fast path that keeps the gradient
    "b60_relu_full_noise_fast_path": dict(props=["C06", "C01", "C02"], edits=[
        E("qkeras/quantizers.py",
          "    if self.use_ste:\n"
          "      return x_u + tf.stop_gradient(self.qnoise_factor * (-x_u + xq))\n",
          "    if self.use_ste:\n"
          "      if isinstance(self.qnoise_factor, float) and \\\n"
          "          self.qnoise_factor == 1.0:\n"
          "        return x_u + tf.stop_gradient(xq - x_u)\n"
          "      return x_u + tf.stop_gradient(self.qnoise_factor * (-x_u + xq))\n")]),
    # --- round 13 ---------------------------------------------------------
    "b51_tfoplambda_test_reordered": dict(props=["C15"], edits=[
        E("qkeras/utils.py",
          "    if op_name == layer.name and class_name == \"TFOpLambda\":\n",
          "    if class_name == \"TFOpLambda\" and layer.name == op_name:\n")]),
    "b52_merge_count_from_a_list": dict(props=["C19"], edits=[
        E("qkeras/qtools/qtools_util.py",
          "  if is_merge_layers(layer) or is_shape_alternation_layers(layer):\n"
          "    operation_count = np.prod(input_shape[1:])\n",
          "  if is_merge_layers(layer) or is_shape_alternation_layers(layer):\n"
          "    operation_count = np.prod(list(input_shape)[1:])\n")]),
    "b53_limit_entries_from_a_list": dict(props=["C20"], edits=[
        E("qkeras/autoqkeras/autoqkeras_internal.py",
          "    for i, pattern in enumerate(self.limit):\n",
          "    for i, pattern in enumerate(list(self.limit)):\n")]),
    # the deterministic code of the training arm through a local helper
    "b54_stochastic_binary_code_helper": dict(props=["C04"], edits=[
        E("qkeras/quantizers.py",
          "      q_non_stochastic = tf.sign(x)\n"
          "      q_non_stochastic += 1.0 - tf.abs(q_non_stochastic)\n",
          "      def _code(v):\n"
          "        s = tf.sign(v)\n"
          "        return s + (1.0 - tf.abs(s))\n"
          "      q_non_stochastic = _code(x)\n")]),
    # the defensive copies are not needed as long as the implementations do
    # not write to their operands: dropping them changes nothing observable
    "b43_adder_without_defensive_copy": dict(props=["C17", "C18"], edits=[E(
        QO + "adder_factory.py",
        "    local_quantizer_1 = copy.deepcopy(quantizer_1)\n",
        "    local_quantizer_1 = quantizer_1\n")]),
    "b44_accumulator_without_defensive_copy": dict(props=["C17", "C18"],
                                                   edits=[E(
        QO + "accumulator_factory.py",
        "    local_multiplier = copy.deepcopy(multiplier)\n",
        "    local_multiplier = multiplier\n")]),
}
