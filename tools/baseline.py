"""Developer tool: run the repository's pinned baseline and compare with
/root/.vp/BASELINE.json (stable_pass must still pass)."""
import json, subprocess, sys, xml.etree.ElementTree as ET, os
out = sys.argv[1] if len(sys.argv) > 1 else "/dev/shm/baseline.junit.xml"
base = json.load(open("/root/.vp/BASELINE.json"))
cmd = base["cmd"].replace("<file>", out)
subprocess.call(cmd, shell=True, stdout=open(out + ".log", "w"), stderr=subprocess.STDOUT)
t = ET.parse(out)
passed = set()
for tc in t.iter("testcase"):
  if not any(c.tag in ("failure", "error", "skipped") for c in tc):
    passed.add("%s::%s" % (tc.get("classname"), tc.get("name")))
want = set(base["stable_pass"])
missing = sorted(want - passed)
print("stable_pass", len(want), "passed now", len(want & passed), "missing", len(missing))
for m in missing[:20]:
  print("  MISSING", m)
