"""Developer tool: writes /verif/MANIFEST.json from the claims table."""
import json
import os

HERE = os.path.dirname(os.path.abspath(__file__))
ROOT = os.path.dirname(HERE)

CMD = "PYTHONHASHSEED=0 /venv/bin/python -m qkstat.check --property %s --tier %s"

IR = ("abstract interpretation of the partially evaluated quantizer IR "
      "(ast-only partial evaluator + value-set / normal-form / derivative "
      "domains)")

CLAIMS = {
    "C01": dict(
        technique="static value-set abstract interpretation (finite-set x "
                  "congruence x interval) over a configuration-specialised "
                  "IR built from the AST",
        text="For every configuration point of the lattice the set of values "
             "the quantizer can emit is over-approximated for ALL inputs at "
             "once and shown to be contained in the declared code set; "
             "min()/max() are constant-folded and must enclose it. Decides "
             "the structural/value-set clause, not float32 behaviour.",
        note="Trusted: the primitive semantics table (qkstat/prims.py, "
             "qir.py), exact real arithmetic. Not decided: range() "
             "enumeration, float32 ties/ulp effects, data-dependent scales "
             "(C05).",
        ref="DESIGN.md section 3 C01"),
    "C02": dict(
        technique="normal-form rewriting (erase the single rounding node) + "
                  "piecewise-affine function comparison + polarity analysis "
                  "on the IR",
        text="Per half line: exactly one round-to-nearest node, post-scale "
             "equals the step, clip bounds on the operand grid, and with the "
             "rounding erased the value IS clip(surrogate(x), min code, max "
             "code) as a function; together these give |q-a|<=step/2 inside "
             "and the nearest end code outside for every input. Monotone by "
             "polarity.",
        note="Trusted: primitive semantics table. Not decided: behaviour at "
             "breakpoints +-1 ulp, idempotence in float32 (derived only in "
             "real arithmetic).",
        ref="DESIGN.md section 3 C02"),
    "C03": dict(
        technique="static value-set abstract interpretation with a signed "
                  "power-of-two domain; region-wise sign and polarity "
                  "analysis",
        text="Output value set is a signed power-of-two set with exponents "
             "inside the documented interval (and <= log2 max_value), sign "
             "and zero mapping by region, rounding primitive matches the "
             "mode, monotone per sign, min()/max() enclose.",
        note="Not decided: log2-nearest at sqrt(2)*2^k +- ulps, epsilon "
             "floor numerics, quadratic_approximation (outside the "
             "property's quantifier).",
        ref="DESIGN.md section 3 C03"),
    "C04": dict(
        technique="normal-form factorisation output = scale x code; "
                  "finite-set value analysis by region; structural match of "
                  "the least-squares scale; power-of-two domain; degree "
                  "typing (homogeneity in the input)",
        text="Code sets, sign/threshold orientation, least-squares form of "
             "the auto scale (same reduction/axes in numerator and "
             "denominator) and power-of-two-ness of auto_po2 scales within "
             "configured exponent bounds, for all inputs.",
        note="Magnitude independence is decided as homogeneity of degree 1 "
             "(degree typing of the forward term) for the inference arms "
             "with alpha='auto' only. Not decided: non-negativity of the "
             "scale in 0/1 mode, the numerical effect of the epsilon term, "
             "the power-of-two modes (which floor the scale) and the random "
             "training arms under huge/tiny magnitudes.",
        ref="DESIGN.md section 3 C04"),
    "C05": dict(
        technique="normal-form factorisation by the recorded scale; "
                  "congruence/interval value set of the code; power-of-two "
                  "domain; reduction-axes check",
        text="Output / recorded scale is an in-range code on the declared "
             "grid free of scale factors; auto_po2 scales are powers of two "
             "(after refinement rounds and clipping); scale detached from "
             "the gradient; per-channel axes for ranks 2..4.",
        note="Not decided: finiteness on all-zero channels, 'auto' top-code "
             "mapping, power-of-two equivariance (numeric clauses).",
        ref="DESIGN.md section 3 C05"),
    "C06": dict(
        technique="symbolic differentiation of the IR with stop_gradient = 0, "
                  "piecewise over x, compared with the documented "
                  "surrogate's derivative",
        text="For every quantizer class/config the derivative of each return "
             "value w.r.t. the input is computed for all inputs by region "
             "and must equal the surrogate's ((1-f) times it without STE), "
             "be alive on the unclipped range, and not flow into "
             "data-dependent scales.",
        note="Trusted: gradient semantics of the primitives (qir.Deriv). Not "
             "decided: numerical finiteness.",
        ref="DESIGN.md section 3 C06"),
    "C07": dict(
        technique="polynomial normal-form identity in the symbolic factor f; "
                  "all-paths symbolic evaluation of the scheduler + polarity; "
                  "writer/reader attribute agreement",
        text="F_f == F_0 + f(F_1-F_0) with F_0 the surrogate for every "
             "config; single dataflow source of the factor; schedule is "
             "0/1/monotone on all paths; num_iters incremented once per "
             "path; every layer's quantizers reachable by the scheduler.",
        note="Trusted: tf.Variable assign/initial value semantics. Not "
             "decided: exponent<=0.",
        ref="DESIGN.md section 3 C07"),
    "C08": dict(
        technique="dominance of random-draw nodes by the learning-phase "
                  "switch; normal-form equality of the inference arm; "
                  "value-set containment of the training arm; orientation "
                  "table",
        text="No random draw outside a training arm; inference arm equals "
             "the deterministic configuration as a function; training-arm "
             "values stay on the code grid; stochastic_round(_po2) pick the "
             "upper neighbour with probability frac.",
        note="Trusted: smart_cond semantics. Not decided: the expectation "
             "itself over many draws.",
        ref="DESIGN.md section 3 C08"),
    "C09": dict(
        technique="partial evaluation of constructor, get_config and "
                  "from_config on the AST + forward normal-form equality of "
                  "original and rebuilt quantizer; registry table comparison",
        text="For all 14 registered classes and every constructor option "
             "(one at a time, full lattice in the thorough tier) the "
             "quantizer rebuilt from its own config must compute the same "
             "forward function and scale for all inputs; keys must be "
             "accepted by the constructor; the registry resolves each name "
             "to the class of that name.",
        note="Trusted: Keras serialize/deserialize call cls.from_config. "
             "Not decided: equality on concrete tensors (follows from NF "
             "equality in real arithmetic).",
        ref="DESIGN.md section 3 C09"),
    "C10": dict(
        technique="AST sink scan; structural rules on GetParams/GetArg; "
                  "partial evaluation of __str__ composed with the "
                  "interpreted safe_eval parser (pyparsing subset modelled) "
                  "+ forward normal-form equality",
        text="No code-execution sink on the text path; positional-after-"
             "keyword rejected; literal dispatch table; and for every class "
             "and option the printed text, re-parsed by the repository's own "
             "parser, must build a quantizer computing the same function.",
        note="Trusted: the pyparsing subset model (qkstat/gram.py) and "
             "CPython str() of scalars/lists. Not decided: the parse "
             "direction over arbitrary generated argument lists.",
        ref="DESIGN.md section 3 C10"),
    "C16": dict(
        technique="partial evaluation of the multiplier factory with "
                  "symbolic operand widths; table/symmetry comparison; "
                  "max-affine inequality proofs (normal-form identity, else "
                  "witness search)",
        text="Table shape/mode order, commutativity (cells and widths), "
             "implementation and output kind against a reference matrix, "
             "sign rule, operand dependence, and sufficiency of integer / "
             "fractional bits for fixed x fixed, shifter and selecting "
             "cells - for all widths at once.",
        note="Trusted: two's-complement ranges of (bits,int_bits,is_signed); "
             "po2 exponent range from get_min_max_exp. Not decided: po2 "
             "cells beyond exponent bookkeeping, max_value clamps, -1 x "
             "most-negative code in mux cells.",
        ref="DESIGN.md section 3 C16"),
    "C17": dict(
        technique="partial evaluation of adder/accumulator/merge type rules "
                  "with symbolic widths (all paths for merges); inequality "
                  "proofs with witness search; polarity analysis",
        text="Adder table symmetry and commutative output types, po2 "
             "operands converted before adding, accumulator growth >= "
             "ceil(log2 N), integer/fractional sufficiency of adders and "
             "merges on every path, monotone widening.",
        note="Inequalities are proved by normal-form identity where "
             "possible, otherwise searched on a witness grid (verdict "
             "'bounded'). Not decided: sufficiency as an arithmetic fact "
             "for N up to 2^20 when forms differ.",
        ref="DESIGN.md section 3 C17"),
    "C19": dict(
        technique="partial evaluation of the count functions on a layer "
                  "with symbolic shapes (polynomial normal-form identity); "
                  "writer/reader key-set comparison per class arm; symbolic "
                  "evaluation of the energy sums",
        text="Operation counts as polynomials in the symbolic input/output/"
             "kernel shapes must equal the true MAC count per layer class "
             "(covers every stride/padding/dilation at once); entry keys "
             "read by the energy model are written by the data type map; "
             "every counted class has an op-energy arm; totals are sums of "
             "the stored entries; costs are clamped at 0.",
        note="Trusted: Keras compute_output_shape. Not decided: the energy "
             "constants, rounding of entries to two decimals.",
        ref="DESIGN.md section 3 C19"),
    "C20": dict(
        technique="partial evaluation of _get_quantizer / quantize_model on "
                  "tagged configurations; key-set comparison with "
                  "model_quantize; normal form + polarity of the forgiving "
                  "factor; symbolic size model",
        text="Which table and limit index reach the tuner for each tensor "
             "role, limit filter orientation, exclusions, pattern groups, "
             "AutoQKeras->model_quantize key agreement, forgiving factor "
             "zero/monotone/sign, size model = elements x bits.",
        note="Trusted: hp.Choice/Fixed return an offered value. Not decided: "
             "the reachable hyper-parameter space, architecture equality up "
             "to filter scaling.",
        ref="DESIGN.md section 3 C20"),
    "C12": dict(
        technique="partial evaluation of model_quantize on synthetic JSON "
                  "model dictionaries with tagged quantizer strings; "
                  "class-model lookup of constructor parameters",
        text="The whole rewriting loop is interpreted on model dictionaries "
             "covering every layer class it knows; the rewritten dictionary "
             "must carry exactly the configured quantizers (name over class, "
             "None for biasless), leave unselected layers and the caller's "
             "dictionaries untouched, add only keys the target Q class "
             "accepts, never raise on a selected layer, and transfer weights "
             "position by position.",
        note="Trusted: Keras to_json/model_from_json (stubbed) - topology, "
             "shapes and hyper-parameters of the rebuilt model are whatever "
             "the JSON says.",
        ref="DESIGN.md section 3 C12"),
    "C13": dict(
        technique="interpretation of the custom-object table; class-model "
                  "comparison of constructor parameters, super().__init__ "
                  "keywords and get_config keys; interpreted reload routes",
        text="Every exported layer/constraint/initializer and registered "
             "quantizer is in the custom-object table under its own name; "
             "every constructor option of a table layer is forwarded or "
             "serialised and every emitted key is accepted; quantizers are "
             "serialised from the applied *_internal objects; the three "
             "reload routes hand the Keras loader a private, completed copy "
             "of custom_objects.",
        note="Trusted: Keras deserialisation through custom_objects. Not "
             "decided: bit-identical predictions, HDF5 I/O.",
        ref="DESIGN.md section 3 C13"),
    "C11": dict(
        technique="partial evaluation of each layer's call() with symbolic "
                  "weights, opaque quantizers and tagged geometry; "
                  "structural inspection of the resulting term; AST rule "
                  "for dead constructor options",
        text="For 13 layer classes and both 'all quantizers set' / 'none': "
             "every weight reaches the backend op only through its own "
             "quantizer (raw when unset) and every weight is used; the "
             "activation is applied last on a value containing the bias; "
             "the backend convolution receives the layer's own strides / "
             "padding / dilation / data_format; no constructor option is "
             "dropped; get_quantizers() returns the applied quantizers in "
             "weight order.",
        note="Trusted: Keras backend ops are uninterpreted - equality with "
             "the stock layer follows from equal arguments. Not decided: "
             "numerical equality.",
        ref="DESIGN.md section 3 C11"),
    "C14": dict(
        technique="partial evaluation of the export on synthetic layers "
                  "with symbolic weights and opaque quantizers; list-shape "
                  "and normal-form comparison; quantizer order vs Keras "
                  "weight order by class model",
        text="signs/scales stay index-aligned with the weights; "
             "set_weights receives each quantizer applied once to its "
             "weight; quantizer order matches the Keras weight order for "
             "every exporting class; po2 sign/exponent forms; auto_po2 "
             "scale x integer identity; batch-norm fusing algebra for all "
             "scale/center/use_bias/inverse-quantizer combinations.",
        note="Trusted: the Keras weight-order table. Not decided: "
             "predictions unchanged / second export no-op (numeric).",
        ref="DESIGN.md section 3 C14"),
    "C15": dict(
        technique="partial evaluation of the folded layers in inference "
                  "mode with symbolic parameters; polynomial normal-form "
                  "identity with the folding formulas; interpreted "
                  "unfolding with Keras stubbed",
        text="Folded kernel and bias equal the documented formulas in call() "
             "and get_folded_weights() for both classes, both folding "
             "modes, gamma on/off, bias on/off; the quantizers are applied "
             "to the folded values and the convolution keeps the layer's "
             "geometry; unfolding copies shared config keys, forces "
             "use_bias and takes get_folded_weights(); foldable classes "
             "have folding arms.",
        note="Not decided: numerical equality with conv followed by BN; "
             "the training path.",
        ref="DESIGN.md section 3 C15"),
    "C18": dict(
        technique="partial evaluation of the dense/conv arm of the "
                  "data-type map with recording factories (def-use "
                  "wiring); AST index rule for the channel loop",
        text="Only the wiring clauses: which quantizers/shape feed the "
             "multiplier, kernel accumulator and bias adder, what the entry "
             "stores and what the outgoing edge receives; and that the "
             "weight-based estimator loops over the output-channel axis. "
             "The numeric bound itself is NOT decided.",
        note="The bound (every pre-activation fits the reported "
             "accumulator) composes C16/C17 arithmetic with concrete "
             "tensors and is outside static reach; this check decides "
             "necessary wiring conditions only.",
        ref="DESIGN.md section 3 C18"),
}

PENDING = "rules for this property are not built yet in this revision of /verif"

ALL = ["C%02d" % i for i in range(1, 21)]


def main():
  checks = []
  na = []
  for pid in ALL:
    c = CLAIMS.get(pid)
    if c is None or not os.path.exists(os.path.join(
        ROOT, "qkstat", "rules", pid.lower() + ".py")):
      na.append({"property_id": pid, "reason": PENDING})
      continue
    checks.append({
        "property_id": pid,
        "quick_cmd": CMD % (pid, "quick"),
        "thorough_cmd": CMD % (pid, "thorough"),
        "evidence_file": "/verif/evidence/%s.json" % pid,
        "replay_cmd_template": CMD % (pid, "quick") + " --replay {path}",
        "engine": "qkstat",
        "level_claimed": {"category": "other", "text": c["text"],
                          "design_ref": c["ref"]},
        "level_note": c["note"],
        "technique": c["technique"],
    })
  m = {
      "version": 1,
      "setup_cmd": "cd /verif && /venv/bin/python -m compileall -q qkstat",
      "hooks": {
          "guard": "QKERAS_VERIF",
          "enable": "no hooks are needed: nothing of the repository is "
                    "executed or instrumented; checks parse /repo's working "
                    "tree",
          "baseline_off_cmd": "cd /repo && /venv/bin/python -m pytest -ra -q "
                              "-p no:cacheprovider --timeout=900 "
                              "--continue-on-collection-errors",
          "source_commits": [],
          "add_only": True,
      },
      "engines": [{
          "name": "qkstat",
          "path": "/verif/qkstat",
          "serves_properties": [c["property_id"] for c in checks],
          "kind_free_text": "repository-specific static analysis over "
                            "Python ast: class/import model, partial "
                            "evaluator to an IR, abstract domains, "
                            "normal forms, table/dataflow rules",
      }],
      "checks": checks,
      "not_applicable": na,
      "notes": "Static analysis only (ast). Exit 0 held / 1 VIOLATION / 2 "
               "ANALYSIS-ERROR. Known findings: /verif/known_findings.json.",
  }
  with open(os.path.join(ROOT, "MANIFEST.json"), "w") as f:
    json.dump(m, f, indent=1)
  print("claimed", len(checks), "not_applicable", len(na))


if __name__ == "__main__":
  main()
