#!/bin/bash
# Developer tool: evaluate round-N seeds delivered in /tmp/seed/w18-<id>/SEED
for id in "$@"; do
  mkdir -p /tmp/seed/out18/$id
  cp /tmp/seed/w18-$id/SEED/patch.diff /tmp/seed/w18-$id/SEED/demo.py /tmp/seed/w18-$id/SEED/meta.json /tmp/seed/out18/$id/ || { echo "$id: SEED files missing"; continue; }
  timeout 6000 /verif/tools/eval_seed.sh /tmp/seed/out18/$id $id-seed18 > /dev/shm/eval18-$id.log 2>&1
  echo "== $id"; grep -E "demo rc|REPORTED BY|stable_pass|^FINDING|^ANALYSIS|PATCH DOES NOT" /dev/shm/eval18-$id.log | cut -c1-300
done
