#!/bin/bash
# Developer tool: run the 20 quick checks AS COMMITTED (git HEAD of /verif,
# not the working tree, which may be mid-edit) against a seeded change.
#   tools/first_eval.sh <label> [<verif-commit>]
# The patch /verif/seeded/<label>/patch.diff is applied to a scratch copy of
# /repo/qkeras under /dev/shm; eval.json gets "reported_by" (rc per check).
LABEL=$1; REV=${2:-HEAD}
set -u
SNAP=/dev/shm/verif-snap-$LABEL; TREE=/dev/shm/seedtree-$LABEL
rm -rf "$SNAP" "$TREE"; mkdir -p "$SNAP" "$TREE"
git -C /verif archive "$REV" qkstat known_findings.json properties.jsonl | tar -x -C "$SNAP"
cp -r /repo/qkeras "$TREE/qkeras"; find "$TREE" -name __pycache__ -prune -exec rm -rf {} +
patch -p1 -s -d "$TREE" -i /verif/seeded/$LABEL/patch.diff || { echo "$LABEL PATCH DOES NOT APPLY"; exit 2; }
HITS=""
cd "$SNAP"
for i in $(seq -w 1 20); do
  OUT=$(QKERAS_REPO=$TREE QKSTAT_EVIDENCE_DIR=$SNAP/evidence PYTHONHASHSEED=0 timeout 900 /venv/bin/python -m qkstat.check --property C$i --tier quick 2>&1); RC=$?
  if [ $RC -ne 0 ]; then HITS="$HITS C$i(rc=$RC)"; echo "$OUT" | grep -E "^FINDING|^ANALYSIS-ERROR" | head -2 | cut -c1-330; fi
done
echo "$LABEL REPORTED BY ($(git -C /verif rev-parse --short $REV)):$HITS"
/venv/bin/python - "$LABEL" "$HITS" "$(git -C /verif rev-parse --short $REV)" <<'P'
import json, sys
lab, hits, rev = sys.argv[1:4]
p = "/verif/seeded/%s/eval.json" % lab
ev = json.load(open(p))
ev["reported_by"] = hits
ev["checks_evaluated_at_verif_commit"] = rev
json.dump(ev, open(p, "w"), indent=1)
P
cd /; rm -rf "$SNAP" "$TREE"
