#!/bin/bash
# Developer tool: run all 40 registered checks (both tiers) with finding dumps
# under /dev/shm/dump; prints one line per check and the exit codes.
mkdir -p /dev/shm/dump; rm -f /dev/shm/dump/*
cd /verif
for t in quick thorough; do for i in $(seq -w 1 20); do echo "C$i $t"; done; done | \
  xargs -P ${JOBS:-10} -L 1 sh -c 'QKSTAT_DUMP=/dev/shm/dump/$0.$1.json PYTHONHASHSEED=0 timeout 5000 /venv/bin/python -m qkstat.check --property $0 --tier $1 > /dev/shm/dump/$0.$1.out 2>&1; echo "$0 $1 rc=$? $(tail -1 /dev/shm/dump/$0.$1.out | cut -c1-120)"' | sort
