#!/bin/bash
# Developer tool: evaluate round-N seeds delivered in /tmp/seed/w12-<id>/SEED
for id in "$@"; do
  mkdir -p /tmp/seed/out12/$id
  cp /tmp/seed/w12-$id/SEED/patch.diff /tmp/seed/w12-$id/SEED/demo.py /tmp/seed/w12-$id/SEED/meta.json /tmp/seed/out12/$id/ || { echo "$id: SEED files missing"; continue; }
  timeout 6000 /verif/tools/eval_seed.sh /tmp/seed/out12/$id $id-seed12 > /dev/shm/eval12-$id.log 2>&1
  echo "== $id"; grep -E "demo rc|REPORTED BY|stable_pass|^FINDING|^ANALYSIS|PATCH DOES NOT" /dev/shm/eval12-$id.log | cut -c1-300
done
