"""Self-test of the checkers (DESIGN section 6): applies each catalogue edit
to a scratch copy of /repo/qkeras under /dev/shm, runs the named property
checks against the copy (QKERAS_REPO) and verifies that mutants are reported
(exit 1 with a VIOLATION line) and benign variants stay silent (exit 0).

  /venv/bin/python tools/selftest.py [--jobs 16] [--only NAME ...]

Nothing under /repo or /verif is modified; scratch copies are removed.
"""
import argparse
import concurrent.futures as cf
import json
import os
import shutil
import subprocess
import sys
import tempfile

HERE = os.path.dirname(os.path.abspath(__file__))
ROOT = os.path.dirname(HERE)
REPO = os.environ.get("QKERAS_REPO", "/repo")
sys.path.insert(0, HERE)
from selftest_catalogue import MUTANTS, BENIGN  # noqa

ALL_PROPS = ["C%02d" % i for i in range(1, 21)]


def apply_edit(root, edit):
  """edit: file, old, new; `matches` = how often `old` must occur (default
  1); `which` = index of the occurrence to replace, or "all"."""
  path = os.path.join(root, edit["file"])
  s = open(path).read()
  n = s.count(edit["old"])
  want = edit.get("matches", 1)
  if n != want:
    return "edit does not apply to %s (%d matches, expected %d)" % (
        edit["file"], n, want)
  which = edit.get("which", 0)
  if which == "all":
    s = s.replace(edit["old"], edit["new"])
  else:
    pos = -1
    for _ in range(which + 1):
      pos = s.find(edit["old"], pos + 1)
    s = s[:pos] + edit["new"] + s[pos + len(edit["old"]):]
  open(path, "w").write(s)
  return None


def run_variant(item):
  name, edits, props, kind = item
  base = tempfile.mkdtemp(prefix="qkstat-%d-" % os.getpid(), dir="/dev/shm")
  try:
    shutil.copytree(os.path.join(REPO, "qkeras"),
                    os.path.join(base, "qkeras"),
                    ignore=shutil.ignore_patterns("__pycache__"))
    if isinstance(edits, str):
      # an independently seeded change kept as a unified diff
      r = subprocess.run(["patch", "-p1", "-s", "-d", base, "-i", edits],
                         capture_output=True, text=True)
      if r.returncode != 0:
        return name, kind, "EDIT-ERROR", "patch does not apply: %s" % (
            r.stdout + r.stderr)[:200], {}
      edits = []
      kind_ = "mutant"
    for e in edits:
      err = apply_edit(base, e)
      if err:
        return name, kind, "EDIT-ERROR", err, {}
    # the edited files must still compile
    for e in edits:
      try:
        compile(open(os.path.join(base, e["file"])).read(), e["file"],
                "exec")
      except SyntaxError as ex:
        return name, kind, "EDIT-ERROR", "syntax error: %s" % ex, {}
    results = {}
    for p in props:
      env = dict(os.environ, QKERAS_REPO=base, PYTHONHASHSEED="0",
                 QKSTAT_EVIDENCE_DIR=os.path.join(base, "evidence"))
      r = subprocess.run([sys.executable, "-m", "qkstat.check", "--property",
                          p, "--tier", "quick"], cwd=ROOT, env=env,
                         capture_output=True, text=True, timeout=900)
      first = ""
      for line in r.stdout.splitlines():
        if line.startswith(("FINDING", "ANALYSIS-ERROR")):
          first = line[:260]
          break
      results[p] = (r.returncode, first)
      if name.startswith("seed:") and r.returncode == 1:
        break   # reported; the remaining checks are not needed
    if kind == "mutant":
      hit = [p for p, (rc, _) in results.items() if rc == 1]
      verdict = "DETECTED" if hit else (
          "ANALYSIS-ERROR" if any(rc == 2 for rc, _ in results.values())
          else "MISSED")
    else:
      bad = [p for p, (rc, _) in results.items() if rc != 0]
      verdict = "SILENT" if not bad else "FALSE-ALARM"
    return name, kind, verdict, "", results
  finally:
    shutil.rmtree(base, ignore_errors=True)


def main():
  ap = argparse.ArgumentParser()
  ap.add_argument("--jobs", type=int, default=16)
  ap.add_argument("--only", nargs="*")
  ap.add_argument("--benign-all-props", action="store_true",
                  help="run all 20 properties on benign variants")
  ap.add_argument("--json", default=None)
  ap.add_argument("--seeds", action="store_true",
                  help="also replay the seeded changes under /verif/seeded")
  args = ap.parse_args()
  items = []
  for name, m in sorted(MUTANTS.items()):
    items.append((name, m["edits"], m["expect"], "mutant"))
  for name, b in sorted(BENIGN.items()):
    props = ALL_PROPS if args.benign_all_props else b.get("props", ALL_PROPS)
    items.append((name, b["edits"], props, "benign"))
  if args.seeds:
    sdir = os.path.join(ROOT, "seeded")
    for label in sorted(os.listdir(sdir)):
      pth = os.path.join(sdir, label, "patch.diff")
      if os.path.exists(pth):
        own = label.split("-")[0]
        # the seed's own property first, then every other check
        items.append(("seed:" + label, pth,
                      [own] + [q for q in ALL_PROPS if q != own], "mutant"))
  if args.only:
    items = [i for i in items if i[0] in args.only]
  out = []
  with cf.ThreadPoolExecutor(max_workers=args.jobs) as ex:
    for res in ex.map(run_variant, items):
      name, kind, verdict, msg, results = res
      detail = ""
      if kind == "mutant":
        hits = ["%s" % p for p, (rc, _) in results.items() if rc == 1]
        detail = "reported by " + ",".join(hits) if hits else msg
        firsts = [f for p, (rc, f) in results.items() if rc != 0 and f]
        if firsts:
          detail += " :: " + firsts[0][:170]
      else:
        bad = ["%s(rc=%d) %s" % (p, rc, f[:150])
               for p, (rc, f) in results.items() if rc != 0]
        detail = "; ".join(bad) or msg
      print("%-11s %-34s %-14s %s" % (kind, name, verdict, detail))
      sys.stdout.flush()
      out.append({"name": name, "kind": kind, "verdict": verdict,
                  "detail": detail,
                  "results": {p: rc for p, (rc, _) in results.items()}})
  ok = all(o["verdict"] in ("DETECTED", "SILENT") for o in out)
  nm = sum(1 for o in out if o["kind"] == "mutant")
  nd = sum(1 for o in out if o["verdict"] == "DETECTED")
  nb = sum(1 for o in out if o["kind"] == "benign")
  ns = sum(1 for o in out if o["verdict"] == "SILENT")
  print("SELFTEST mutants detected %d/%d, benign silent %d/%d" %
        (nd, nm, ns, nb))
  if args.json:
    json.dump(out, open(args.json, "w"), indent=1)
  return 0 if ok else 1


if __name__ == "__main__":
  sys.exit(main())
