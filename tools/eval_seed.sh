#!/bin/bash
# Developer tool: evaluate an independently seeded change in a FRESH scratch
# worktree (never in /repo, never in the agent's own worktree; no git stash,
# which is shared between worktrees).
#   tools/eval_seed.sh <dir with patch.diff demo.py meta.json> <label>
# 1. demo on the untouched tree (must pass), 2. apply the patch, demo again
# (must fail), 3. every quick check AS COMMITTED against the changed tree
# (tools/first_eval.sh), 4. store the
# artefacts under /verif/seeded/<label>/ and remove the worktree.
SRC=$1; LABEL=$2
set -u
EV=/tmp/seed/ev-$LABEL
git -C /repo worktree remove --force "$EV" >/dev/null 2>&1
git -C /repo worktree add -q --detach "$EV" HEAD || exit 2
mkdir -p "$EV/SEED"; cp "$SRC"/patch.diff "$SRC"/demo.py "$SRC"/meta.json "$EV/SEED/"
# demos written by the agents may refer to their own worktree path
sed -i "s#/tmp/seed/w\(1[0-9]\|[t23456789]\)-[A-Za-z0-9_-]*#$EV#g" "$EV/SEED/demo.py"
cd "$EV"
echo "== demo WITHOUT change"
PYTHONPATH=$EV timeout 1200 /venv/bin/python SEED/demo.py > /dev/shm/demo_without_$LABEL.log 2>&1; RC_WITHOUT=$?
tail -2 /dev/shm/demo_without_$LABEL.log | cut -c1-220
sed "s#/tmp/seed/w\(1[0-9]\|[t23456789]\)-[A-Za-z0-9_-]*/##g" SEED/patch.diff > /dev/shm/patch_$LABEL.diff
git apply /dev/shm/patch_$LABEL.diff || { echo "PATCH DOES NOT APPLY"; git -C /repo worktree remove --force "$EV"; exit 2; }
git diff --stat -- qkeras | tail -2
/venv/bin/python -m compileall -q qkeras >/dev/null 2>&1 || echo "COMPILE ERROR"
echo "== demo WITH change"
PYTHONPATH=$EV timeout 1200 /venv/bin/python SEED/demo.py > /dev/shm/demo_with_$LABEL.log 2>&1; RC_WITH=$?
tail -2 /dev/shm/demo_with_$LABEL.log | cut -c1-220
echo "demo rc with=$RC_WITH without=$RC_WITHOUT"
mkdir -p /verif/seeded/$LABEL
cp "$SRC"/demo.py "$SRC"/meta.json /verif/seeded/$LABEL/
cp /dev/shm/patch_$LABEL.diff /verif/seeded/$LABEL/patch.diff
echo "{\"demo_rc_with_change\": $RC_WITH, \"demo_rc_without_change\": $RC_WITHOUT, \"reported_by\": \"\", \"evaluated_in\": \"fresh worktree of /repo HEAD, patch applied with git apply; quick checks as committed in /verif (tools/first_eval.sh) run against a scratch copy with the patch\"}" > /verif/seeded/$LABEL/eval.json
git -C /repo worktree remove --force "$EV"
echo "== checks (as committed) against the changed tree"
/verif/tools/first_eval.sh $LABEL
/verif/tools/seed_baseline.sh $LABEL
