#!/bin/bash
# Developer tool: evaluate round-N seeds delivered in /tmp/seed/w15-<id>/SEED
for id in "$@"; do
  mkdir -p /tmp/seed/out15/$id
  cp /tmp/seed/w15-$id/SEED/patch.diff /tmp/seed/w15-$id/SEED/demo.py /tmp/seed/w15-$id/SEED/meta.json /tmp/seed/out15/$id/ || { echo "$id: SEED files missing"; continue; }
  timeout 6000 /verif/tools/eval_seed.sh /tmp/seed/out15/$id $id-seed15 > /dev/shm/eval15-$id.log 2>&1
  echo "== $id"; grep -E "demo rc|REPORTED BY|stable_pass|^FINDING|^ANALYSIS|PATCH DOES NOT" /dev/shm/eval15-$id.log | cut -c1-300
done
