"""Developer tool: regenerate the table of seeded changes in DESIGN.md
(section 6.2) from /verif/seeded/*/eval.json."""
import glob, json, os, re
ROOT = os.path.dirname(os.path.dirname(os.path.abspath(__file__)))
rows = []
stats = {"missed": 0, "wrong": 0, "other": 0, "n": 0}
def _natural(d):
  lab = os.path.basename(d)
  m = re.match(r"(C\d+)-seed(\d+)$", lab)
  return (m.group(1), int(m.group(2))) if m else (lab, 0)


for d in sorted(glob.glob(os.path.join(ROOT, "seeded", "*")), key=_natural):
  lab = os.path.basename(d)
  ev = json.load(open(os.path.join(d, "eval.json")))
  if "reported_by_current_checks" not in ev:
    continue      # evaluated, not yet booked (round in progress)
  first = ev.get("reported_by_at_first_evaluation", "")
  stats["n"] += 1
  if not first or first.startswith("exit 2"):
    stats["missed"] += 1
  elif "wrong reason" in first:
    stats["wrong"] += 1
  f = first.replace("(rc=1)", "") if first else "—"
  if "wrong reason" in f:
    f = f.split(" for the")[0] + " (wrong reason)"
  rows.append("| %s | %s | %s / %s | %s | %s | %s |" % (
      lab, ev.get("one_line", ""), ev["demo_rc_with_change"],
      ev["demo_rc_without_change"], f,
      ev["reported_by_current_checks"].split(" (")[0],
      ev.get("what_the_miss_led_to", "")))
p = os.path.join(ROOT, "DESIGN.md")
s = open(p).read()
head = "| seed | change (what it needs to manifest: `meta.json`) |"
a = s.index(head)
b = s.index("\n\n", a)
hdr = s[a:b].split("\n")[:2]
s = s[:a] + "\n".join(hdr + rows) + s[b:]
open(p, "w").write(s)
print("seeds %(n)d, missed at first %(missed)d, wrong reason %(wrong)d" % stats)
